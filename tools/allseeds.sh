cd /verif
for d in seeded/*/; do n=$(basename $d); p=$(python3 -c "import json;print(json.load(open('$d/meta.json'))['property'])"); echo "=== $n ($p)"; tools/seedcheck.sh /verif/$d/patch.diff $p 2>&1 | grep -E "^VIOLATION|^gvc:|PATCH" | cut -c1-230; done
