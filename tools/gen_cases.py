import os
SEC='// @Security(schemeA, { scopes: ["read"] })\n'
def ctl(name, body, ctlroute="/c", sec=SEC):
    return ("package %s\n\nimport \"github.com/gopher-fleece/runtime\"\n\n" % name) + "// @Tag(T)\n// @Route(%s)\n%stype C struct {\n\truntime.GleeceController\n}\n\n%s\n" % (ctlroute, sec, body)
cases={
"okbasic": (ctl("okbasic","// @Method(GET)\n// @Route(/x/{id})\n// @Path(id)\n// @Query(q)\nfunc (c *C) M(id string, q int) error { return nil }\n"),"accept"),
"r10sec": (ctl("r10sec","// @Method(GET)\n// @Route(/x)\n// @Security(schemeB)\n// @Header(schemeB)\nfunc (c *C) M(schemeB string) error { return nil }\n",sec=""),"accept"),
"r6prefix": (ctl("r6prefix","// @Method(GET)\n// @Route(/y)\n// @Path(id)\nfunc (c *C) M(id string) error { return nil }\n",ctlroute="/a/{tenant}"),"reject"),
"r9twice": (ctl("r9twice","// @Method(GET)\n// @Route(/x)\nfunc (c *C) M(a string, b string) error { return nil }\n"),"reject"),
"twobodies": (ctl("twobodies","type B struct{ X int }\n\n// @Method(POST)\n// @Route(/x)\n// @Body(a)\n// @Body(b)\nfunc (c *C) M(a B, b B) error { return nil }\n"),"reject"),
"formthenbody": (ctl("formthenbody","type B struct{ X int }\n\n// @Method(POST)\n// @Route(/x)\n// @FormField(f)\n// @Body(b)\nfunc (c *C) M(f string, b B) error { return nil }\n"),"reject"),
"bodythenform": (ctl("bodythenform","type B struct{ X int }\n\n// @Method(POST)\n// @Route(/x)\n// @Body(b)\n// @FormField(f)\nfunc (c *C) M(b B, f string) error { return nil }\n"),"reject"),
"lowerverb": (ctl("lowerverb","// @Method(get)\n// @Route(/x)\nfunc (c *C) M() error { return nil }\n"),"reject"),
"threerets": (ctl("threerets","// @Method(GET)\n// @Route(/x)\nfunc (c *C) M() (string, int, error) { return \"\", 0, nil }\n"),"reject"),
"noerror": (ctl("noerror","// @Method(GET)\n// @Route(/x)\nfunc (c *C) M() string { return \"\" }\n"),"reject"),
"missingpath": (ctl("missingpath","// @Method(GET)\n// @Route(/x/{id})\n// @Query(id)\nfunc (c *C) M(id string) error { return nil }\n"),"reject"),
"nosecurity": (ctl("nosecurity","// @Method(GET)\n// @Route(/x)\nfunc (c *C) M() error { return nil }\n",sec=""),"reject-nodefault"),
"aliaspath": (ctl("aliaspath","// @Method(GET)\n// @Route(/x/{the-id})\n// @Path(id, { name: \"the-id\" })\nfunc (c *C) M(id string) error { return nil }\n"),"accept"),
"dupurlparam": (ctl("dupurlparam","// @Method(GET)\n// @Route(/x/{id}/y/{id})\nfunc (c *C) M() error { return nil }\n"),"reject"),
"twobadaliases": (ctl("twobadaliases","// @Method(GET)\n// @Route(/x/{a}/{b})\n// @Path(p, { name: 12 })\n// @Path(q, { name: 13 })\nfunc (c *C) M(p string, q string) error { return nil }\n"),"reject"),
"sliceheader": (ctl("sliceheader","// @Method(GET)\n// @Route(/x)\n// @Header(h)\nfunc (c *C) M(h []string) error { return nil }\n"),"reject"),
"slicepath": (ctl("slicepath","// @Method(GET)\n// @Route(/x/{p})\n// @Path(p)\nfunc (c *C) M(p []int) error { return nil }\n"),"reject"),
"sliceform": (ctl("sliceform","// @Method(POST)\n// @Route(/x)\n// @FormField(f)\nfunc (c *C) M(f []string) error { return nil }\n"),"reject"),
"slicequery": (ctl("slicequery","// @Method(GET)\n// @Route(/x)\n// @Query(q)\nfunc (c *C) M(q []string) error { return nil }\n"),"accept"),
"structquery": (ctl("structquery","type B struct{ X int }\n\n// @Method(GET)\n// @Route(/x)\n// @Query(q)\nfunc (c *C) M(q B) error { return nil }\n"),"reject"),
"dupalias": (ctl("dupalias","// @Method(GET)\n// @Route(/items/{id})\n// @Path(first, { name: \"id\" })\n// @Path(second, { name: \"id\" })\nfunc (c *C) M(first string, second string) error { return nil }\n"),"reject"),
"swapalias": (ctl("swapalias","// @Method(GET)\n// @Route(/swap/{a}/{b})\n// @Path(a, { name: \"b\" })\n// @Path(b, { name: \"a\" })\nfunc (c *C) M(a string, b string) error { return nil }\n"),"accept"),
"blockdoc": ("package blockdoc\n\nimport \"github.com/gopher-fleece/runtime\"\n\n/*\nA controller documented with a block comment and no tag annotation at all,\nspread over several lines so that its end lies on a later line than its start.\n@Route(/c)\n*/\ntype C struct {\n\truntime.GleeceController\n}\n\n// @Method(GET)\n// @Route(/x)\n// @Security(schemeA, { scopes: [\"read\"] })\nfunc (c *C) M() error { return nil }\n","accept"),
"shapefunc": (ctl("shapefunc","type B struct {\n\tName string\n\tOnDone func(id string)\n}\n\n// @Method(POST)\n// @Route(/x)\n// @Body(b)\nfunc (c *C) M(b B) error { return nil }\n"),"any"),
"shapechan": (ctl("shapechan","type B struct {\n\tName string\n\tEvents chan int\n}\n\n// @Method(POST)\n// @Route(/x)\n// @Body(b)\nfunc (c *C) M(b B) error { return nil }\n"),"any"),
"shaperecursive": (ctl("shaperecursive","type N struct {\n\tName string\n\tNext *N\n\tKids []N\n\tIndex map[string][]N\n}\n\n// @Method(POST)\n// @Route(/x)\n// @Body(b)\nfunc (c *C) M(b N) (N, error) { return b, nil }\n"),"any"),
"shapeiface": (ctl("shapeiface","type B struct {\n\tAny interface{}\n\tFn func()\n\tArr [3]int\n\tPtr **string\n}\n\n// @Method(POST)\n// @Route(/x)\n// @Body(b)\nfunc (c *C) M(b B) error { return nil }\n"),"any"),
"pathandquery": (ctl("pathandquery","// @Method(GET)\n// @Route(/x/{id})\n// @Path(id)\n// @Query(id)\nfunc (c *C) M(id string) error { return nil }\n"),"reject"),
"pathandheader": (ctl("pathandheader","// @Method(GET)\n// @Route(/x/{id})\n// @Header(id)\n// @Path(id)\nfunc (c *C) M(id string) error { return nil }\n"),"reject"),
"queryandheader": (ctl("queryandheader","// @Method(GET)\n// @Route(/x)\n// @Query(v)\n// @Header(v)\nfunc (c *C) M(v string) error { return nil }\n"),"reject"),
"wrappedparams": (ctl("wrappedparams","// @Method(GET)\n// @Route(/x)\n// @Query(firstName)\nfunc (c *C) Search(firstName,\n\tlastName string,\n) error {\n\treturn nil\n}\n"),"reject"),
"wrappedok": (ctl("wrappedok","// @Method(GET)\n// @Route(/x)\n// @Query(firstName)\n// @Query(lastName)\nfunc (c *C) Search(\n\tfirstName string,\n\tlastName struct {\n\t\tA string\n\t},\n) (\n\tstring,\n\terror,\n) {\n\treturn \"\", nil\n}\n"),"reject"),
"varnames": (ctl("varnames","// @Method(GET)\n// @Route(/users/{id})\n// @Path(id)\nfunc (c *C) GetUser(id string) error { return nil }\n\n// @Method(DELETE)\n// @Route(/users/{userId})\n// @Path(userId)\nfunc (c *C) DeleteUser(userId string) error { return nil }\n"),"any"),
"shapegeneric": (ctl("shapegeneric","type GNode[T any] struct {\n\tValue T\n\tNext  *GNode[T]\n}\n\n// @Method(POST)\n// @Route(/x)\n// @Body(b)\nfunc (c *C) M(b GNode[string]) error { return nil }\n"),"any"),
"conflictanderror": (ctl("conflictanderror","// @Method(GET)\n// @Route(/items/{id})\n// @Query(id)\nfunc (c *C) ByID(id string) error { return nil }\n\n// @Method(GET)\n// @Route(/items/{name})\n// @Path(name)\nfunc (c *C) ByName(name string) error { return nil }\n"),"reject"),
"urlparamsubstring": (ctl("urlparamsubstring","// @Method(GET)\n// @Route(/items/{item})\n// @Query(item)\nfunc (c *C) M(item string) error { return nil }\n"),"reject"),
"bodyalias": (ctl("bodyalias","type Note struct {\n\tText string `json:\"text\"`\n}\n\ntype NoteAlias Note\n\n// @Method(POST)\n// @Route(/x)\n// @Body(b)\nfunc (c *C) M(b NoteAlias) error { return nil }\n"),"any"),
"bodygeneric": (ctl("bodygeneric","type Note struct {\n\tText string `json:\"text\"`\n}\n\ntype Page[T any] struct {\n\tItems []T `json:\"items\"`\n}\n\n// @Method(POST)\n// @Route(/x)\n// @Body(b)\nfunc (c *C) M(b Page[Note]) error { return nil }\n"),"any"),
"unexportedroute": (ctl("unexportedroute","// @Method(GET)\n// @Route(/ping)\nfunc (c *C) Ping() error { return nil }\n\n// @Method(DELETE)\n// @Route(/purge)\nfunc (c *C) purge() error { return nil }\n"),"any"),
"warnonly": (ctl("warnonly","// @Method(GET)\n// @Route(/x)\nfunc (c *C) M() error { return nil }\n\n// @Method(GET)\n// @Route(/x)\nfunc (c *C) M2() error { return nil }\n"),"accept"),
}
for n,(src,exp) in cases.items():
    os.makedirs("cases/%s"%n,exist_ok=True)
    open("cases/%s/ctl.go"%n,"w").write(src)
    open("cases/%s/expect.txt"%n,"w").write(exp+"\n")
