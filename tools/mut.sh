#!/bin/sh
# usage: tools/mut.sh <file-in-repo> <python-replace-old> <python-replace-new> <gvc args...>
# applies a textual mutation to /repo, runs gvc, restores the file.
f="$1"; old="$2"; new="$3"; shift 3
cp "/repo/$f" /tmp/mut.bak
python3 - "$f" "$old" "$new" <<'PY'
import sys
f,old,new=sys.argv[1:4]
p='/repo/'+f
s=open(p).read()
if old not in s:
    print("MUTATION TARGET NOT FOUND"); sys.exit(3)
open(p,'w').write(s.replace(old,new,1))
PY
rc=$?
if [ $rc -eq 0 ]; then /verif/bin/gvc check "$@" 2>&1 | grep -E "FAIL|UNIT|VIOLATION|^gvc:" | head -20; fi
cp /tmp/mut.bak "/repo/$f"
