#!/usr/bin/env python3
"""Regenerates the two generated tables of DESIGN.md: §11.2 (from tools/manifest_table.json) and §11.5 (from seeded/*/meta.json)."""
import json, os, re, glob
root = os.path.dirname(os.path.dirname(os.path.abspath(__file__)))
d = open(os.path.join(root, 'DESIGN.md')).read()
t = json.load(open(os.path.join(root, 'tools/manifest_table.json')))

def split(text):
    parts = {'Unbounded': '', 'Bounded': '–', 'rest': '–'}
    m = re.split(r' (Bounded|Not reached|Assumed): ', text)
    parts['Unbounded'] = m[0].replace('Unbounded: ', '').rstrip('.')
    rest = []
    for i in range(1, len(m), 2):
        if m[i] == 'Bounded':
            parts['Bounded'] = m[i+1].rstrip('.')
        else:
            rest.append((m[i] + ': ' if m[i] == 'Assumed' else '') + m[i+1].rstrip('.'))
    if rest:
        parts['rest'] = '; '.join(rest)
    return parts

rows = ['| id | proved unbounded (functions under contract) | bounded stand-in | not reached / assumed |', '|---|---|---|---|']
for x in t['checks']:
    p = split(x['text'])
    rows.append('| %s | %s | %s | %s |' % (x['id'], p['Unbounded'].replace('|', '\\|'), p['Bounded'].replace('|', '\\|'), p['rest'].replace('|', '\\|')))
tab2 = '\n'.join(rows)
d = re.sub(r'\| id \| proved unbounded.*?\n(?=\nC02, C05, C12 remain)', tab2 + '\n', d, flags=re.S)

rows = ['| seed | property | needs | caught by |', '|---|---|---|---|']
n = 0
for mf in sorted(glob.glob(os.path.join(root, 'seeded/*/meta.json'))):
    m = json.load(open(mf))
    n += 1
    rows.append('| %s | %s | %s | %s |' % (os.path.basename(os.path.dirname(mf)), m['property'], m['needs'].replace('|', '\\|'), m['detected_by'].replace('|', '\\|')))
tab5 = '\n'.join(rows)
d = re.sub(r'\| seed \| property \| needs \| caught by \|.*?\n(?=\nLater contracts close)', tab5 + '\n', d, flags=re.S)
d = re.sub(r'Each of the \d+ \(', 'Each of the %d (' % n, d)
open(os.path.join(root, 'DESIGN.md'), 'w').write(d)
print('tables regenerated:', len(t['checks']), 'properties,', n, 'seeds')
