#!/bin/sh
# validates MANIFEST.json and every evidence file against the harness schemas
cd /verif && python3-vt - <<'PY'
import json, jsonschema, glob
jsonschema.validate(json.load(open('MANIFEST.json')), json.load(open('/root/.vp/MANIFEST.schema.json')))
print('MANIFEST ok')
s = json.load(open('/root/.vp/EVIDENCE.schema.json'))
for f in sorted(glob.glob('evidence/*.json')):
    jsonschema.validate(json.load(open(f)), s)
    print(f, 'ok')
PY
