#!/bin/bash
# usage: tools/confirm_seed.sh <ID> <worktree> <outdir> <demo-pkg-dir-relative> <demo-test-regex>
# Confirms a seeded change: builds, demo fails with it and passes without it, existing suite unchanged.
id="$1"; wt="$2"; out="$3"; pkg="$4"; rx="$5"
export GOFLAGS=-mod=mod GOPROXY=off
cd "$wt" || exit 2
{
echo "== confirm $id in $wt"
go build ./... && echo "BUILD: ok" || echo "BUILD: FAILED"
echo "== demo WITH the change (expected: FAIL)"
go test -vet=off -count=1 -run "$rx" "./$pkg" 2>&1 | tail -4
echo "== demo WITHOUT the change (expected: ok)"
git apply -R "$out/patch.diff" && go test -vet=off -count=1 -run "$rx" "./$pkg" 2>&1 | tail -3; git apply "$out/patch.diff"
echo "== existing suite WITH the change, demo file moved away (expected: only the two baseline failures)"
mkdir -p /tmp/demo_hold_$id; for f in $(git status --short | grep '^??' | awk '{print $2}'); do mkdir -p /tmp/demo_hold_$id/$(dirname $f); mv $f /tmp/demo_hold_$id/$f; done
go test -vet=off -count=1 ./... 2>&1 | grep -E "^(FAIL|ok)" | grep -v "no test files" | awk '{print $1}' | sort | uniq -c
go test -vet=off -count=1 ./... 2>&1 | grep -E "^FAIL\s" | awk '{print $2}'
git checkout -- e2e 2>/dev/null
(cd /tmp/demo_hold_$id && find . -type f | while read f; do mkdir -p "$wt/$(dirname $f)"; mv "$f" "$wt/$f"; done); rm -rf /tmp/demo_hold_$id
} > "$out/confirm.txt" 2>&1
tail -25 "$out/confirm.txt"
