#!/usr/bin/env python3
"""Generates /verif/MANIFEST.json from tools/manifest_table.json (kept next to it)."""
import json, os, sys
here = os.path.dirname(os.path.abspath(__file__))
root = os.path.dirname(here)
tbl = json.load(open(os.path.join(here, "manifest_table.json")))
import subprocess
try:
    log = subprocess.run(["git", "-C", "/repo", "log", "--format=%H %s"], capture_output=True, text=True).stdout.splitlines()
    tbl["source_commits"] = [l.split(" ", 1)[0] for l in log if " verif hook" in l]
except Exception:
    pass
checks = []
for c in tbl["checks"]:
    pid = c["id"]
    checks.append({
        "property_id": pid,
        "quick_cmd": f"bin/gvc check --property {pid} --tier quick",
        "thorough_cmd": f"bin/gvc check --property {pid} --tier thorough",
        "evidence_file": f"/verif/evidence/{pid}.json",
        "replay_cmd_template": "bin/gvc replay {path}",
        "engine": "gvc",
        "level_claimed": {"category": c["level"], "text": c["text"], "design_ref": c.get("design_ref", "DESIGN.md §5 " + pid)},
        "level_note": c["note"],
        "technique": c.get("technique", "contract-based deductive verification: weakest-precondition VCs generated from go/ssa of the real functions, contracts in //@ comment files, discharged by z3/cvc5"),
    })
m = {
    "version": 1,
    "setup_cmd": "cd /verif/gvc && GOFLAGS=-mod=mod GOPROXY=off go build -o ../bin/gvc .",
    "hooks": {
        "guard": "verif",
        "enable": "go build tag `verif` (gvc loads /repo with -tags=verif); the hook files are comment-only zz_contracts_verif.go files",
        "baseline_off_cmd": "cd /repo && GOFLAGS=-mod=mod go test -json -vet=off -count=1 -timeout 25m ./...",
        "source_commits": tbl.get("source_commits", []),
        "add_only": True,
    },
    "engines": [{
        "name": "gvc", "path": "/verif/gvc",
        "serves_properties": [c["id"] for c in tbl["checks"]],
        "kind_free_text": "own VC generator over go/ssa (x/tools v0.39.0) -> SMT-LIB; z3 5.1.0, z3 4.8.12 and cvc5 1.0 raced per obligation; contracts are //@ comments in /repo/**/zz_contracts_verif.go (build tag verif)",
    }],
    "checks": checks,
    "notes": tbl.get("notes", ""),
    "not_applicable": tbl["not_applicable"],
}
json.dump(m, open(os.path.join(root, "MANIFEST.json"), "w"), indent=1)
print("wrote MANIFEST.json with", len(checks), "checks and", len(m["not_applicable"]), "not_applicable")
