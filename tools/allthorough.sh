cd /verif
for p in C01 C03 C04 C06 C07 C08 C09 C10 C11 C13 C14 C15 C16 C17 C18 C19 C20; do
  s=$(date +%s)
  bin/gvc check --property $p --tier thorough > /tmp/gvc_thorough_$p.log 2>&1
  rc=$?
  echo "$p rc=$rc $(( $(date +%s)-s ))s $(grep -c '^VIOLATION' /tmp/gvc_thorough_$p.log) violations; $(tail -1 /tmp/gvc_thorough_$p.log)"
done
