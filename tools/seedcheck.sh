#!/bin/sh
# usage: tools/seedcheck.sh <patch> <property> [tier]
# applies a seeded change to /repo, runs the property's check, and reverts exactly that patch.
patch="$1"; prop="$2"; tier="${3:-quick}"
cd /repo || exit 2
if [ -n "$(git status --porcelain)" ]; then echo "REFUSING: /repo has uncommitted changes (commit the hook files first)"; exit 4; fi
if ! git apply --check "$patch" 2>/dev/null; then echo "PATCH DOES NOT APPLY"; exit 3; fi
git apply "$patch"
cd /verif && timeout 1800 bin/gvc check --property "$prop" --tier "$tier" 2>&1 | grep -E "FAIL|UNIT|VIOLATION|KNOWN|^gvc:" | cut -c1-260 | head -24
cd /repo && git apply -R "$patch" && git status --short | head -3
