package fxproj

// C01 stand-in over the corpus: whenever a corpus project is accepted, the emitted document has exactly one operation
// per annotated verb/route pair that is not hidden (counted in the project's source text) - for both OpenAPI versions.

import (
	"encoding/json"
	"fmt"
	"os"
	"path/filepath"
	"regexp"
	"strings"
	"testing"
)

var docBlock = regexp.MustCompile(`(?m)((?:^//.*\n)+)func \(`)
var methodAnn = regexp.MustCompile(`@Method\(([^)]*)\)`)
var routeAnn = regexp.MustCompile(`@Route\(([^)]*)\)`)

func TestVerifC01CorpusOperations(t *testing.T) {
	entries, _ := os.ReadDir("cases")
	n := 0
	failed := false
	for _, e := range entries {
		if !e.IsDir() {
			continue
		}
		name := e.Name()
		exp, _ := os.ReadFile(filepath.Join("cases", name, "expect.txt"))
		want := strings.TrimSpace(string(exp))
		if want != "accept" && want != "any" {
			continue
		}
		src, _ := os.ReadFile(filepath.Join("cases", name, "ctl.go"))
		// (two methods annotated with the same verb and route are one verb/path pair: the statement is about pairs)
		pairs := map[string]bool{}
		for _, m := range docBlock.FindAllStringSubmatch(string(src), -1) {
			if strings.Contains(m[1], "@Method(") && !strings.Contains(m[1], "@Hidden") {
				verb, route := "", ""
				if v := methodAnn.FindStringSubmatch(m[1]); v != nil {
					verb = v[1]
				}
				if r := routeAnn.FindStringSubmatch(m[1]); r != nil {
					route = r[1]
				}
				pairs[verb+" "+route] = true
			}
		}
		annotated := len(pairs)
		for _, version := range []string{"3.0.0", "3.1.0"} {
			_, spec, err := genInto(t, t.TempDir(), func(cfg map[string]any) {
				cfg["commonConfig"].(map[string]any)["controllerGlobs"] = []any{"./cases/" + name + "/*.go"}
				cfg["openapiGeneratorConfig"].(map[string]any)["openapi"] = version
			})
			if err != nil || len(spec) == 0 {
				continue
			}
			n++
			var doc map[string]any
			if json.Unmarshal(spec, &doc) != nil {
				continue
			}
			ops := 0
			paths, _ := doc["paths"].(map[string]any)
			for _, item := range paths {
				im, _ := item.(map[string]any)
				for verb := range im {
					switch verb {
					case "get", "put", "post", "delete", "options", "head", "patch", "trace":
						ops++
					}
				}
			}
			if ops != annotated {
				fmt.Printf("VERIF-FAIL: class=C01-corpus-operation-count-%s cases/%s (%s): the source annotates %d distinct visible verb/route pairs, the document has %d operations\n", name, name, version, annotated, ops)
				failed = true
			}
		}
	}
	fmt.Printf("VERIF-CASES: %d (accepted corpus projects x 2 OpenAPI versions)\n", n)
	fmt.Println("VERIF-DONE")
	if failed {
		t.Fail()
	}
}
