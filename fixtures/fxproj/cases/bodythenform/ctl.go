package bodythenform

import "github.com/gopher-fleece/runtime"

// @Tag(T)
// @Route(/c)
// @Security(schemeA, { scopes: ["read"] })
type C struct {
	runtime.GleeceController
}

type B struct{ X int }

// @Method(POST)
// @Route(/x)
// @Body(b)
// @FormField(f)
func (c *C) M(b B, f string) error { return nil }

