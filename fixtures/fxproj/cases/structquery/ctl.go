package structquery

import "github.com/gopher-fleece/runtime"

// @Tag(T)
// @Route(/c)
// @Security(schemeA, { scopes: ["read"] })
type C struct {
	runtime.GleeceController
}

type B struct{ X int }

// @Method(GET)
// @Route(/x)
// @Query(q)
func (c *C) M(q B) error { return nil }

