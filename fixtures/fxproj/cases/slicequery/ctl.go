package slicequery

import "github.com/gopher-fleece/runtime"

// @Tag(T)
// @Route(/c)
// @Security(schemeA, { scopes: ["read"] })
type C struct {
	runtime.GleeceController
}

// @Method(GET)
// @Route(/x)
// @Query(q)
func (c *C) M(q []string) error { return nil }

