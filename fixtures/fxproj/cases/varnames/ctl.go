package varnames

import "github.com/gopher-fleece/runtime"

// @Tag(T)
// @Route(/c)
// @Security(schemeA, { scopes: ["read"] })
type C struct {
	runtime.GleeceController
}

// @Method(GET)
// @Route(/users/{id})
// @Path(id)
func (c *C) GetUser(id string) error { return nil }

// @Method(DELETE)
// @Route(/users/{userId})
// @Path(userId)
func (c *C) DeleteUser(userId string) error { return nil }

