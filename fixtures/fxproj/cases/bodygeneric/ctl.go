package bodygeneric

import "github.com/gopher-fleece/runtime"

// @Tag(T)
// @Route(/c)
// @Security(schemeA, { scopes: ["read"] })
type C struct {
	runtime.GleeceController
}

type Note struct {
	Text string `json:"text"`
}

type Page[T any] struct {
	Items []T `json:"items"`
}

// @Method(POST)
// @Route(/x)
// @Body(b)
func (c *C) M(b Page[Note]) error { return nil }

