package twobadaliases

import "github.com/gopher-fleece/runtime"

// @Tag(T)
// @Route(/c)
// @Security(schemeA, { scopes: ["read"] })
type C struct {
	runtime.GleeceController
}

// @Method(GET)
// @Route(/x/{a}/{b})
// @Path(p, { name: 12 })
// @Path(q, { name: 13 })
func (c *C) M(p string, q string) error { return nil }

