package shapechan

import "github.com/gopher-fleece/runtime"

// @Tag(T)
// @Route(/c)
// @Security(schemeA, { scopes: ["read"] })
type C struct {
	runtime.GleeceController
}

type B struct {
	Name string
	Events chan int
}

// @Method(POST)
// @Route(/x)
// @Body(b)
func (c *C) M(b B) error { return nil }

