package okbasic

import "github.com/gopher-fleece/runtime"

// @Tag(T)
// @Route(/c)
// @Security(schemeA, { scopes: ["read"] })
type C struct {
	runtime.GleeceController
}

// @Method(GET)
// @Route(/x/{id})
// @Path(id)
// @Query(q)
func (c *C) M(id string, q int) error { return nil }

