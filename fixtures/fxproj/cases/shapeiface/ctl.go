package shapeiface

import "github.com/gopher-fleece/runtime"

// @Tag(T)
// @Route(/c)
// @Security(schemeA, { scopes: ["read"] })
type C struct {
	runtime.GleeceController
}

type B struct {
	Any interface{}
	Fn func()
	Arr [3]int
	Ptr **string
}

// @Method(POST)
// @Route(/x)
// @Body(b)
func (c *C) M(b B) error { return nil }

