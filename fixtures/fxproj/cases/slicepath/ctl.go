package slicepath

import "github.com/gopher-fleece/runtime"

// @Tag(T)
// @Route(/c)
// @Security(schemeA, { scopes: ["read"] })
type C struct {
	runtime.GleeceController
}

// @Method(GET)
// @Route(/x/{p})
// @Path(p)
func (c *C) M(p []int) error { return nil }

