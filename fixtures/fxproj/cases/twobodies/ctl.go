package twobodies

import "github.com/gopher-fleece/runtime"

// @Tag(T)
// @Route(/c)
// @Security(schemeA, { scopes: ["read"] })
type C struct {
	runtime.GleeceController
}

type B struct{ X int }

// @Method(POST)
// @Route(/x)
// @Body(a)
// @Body(b)
func (c *C) M(a B, b B) error { return nil }

