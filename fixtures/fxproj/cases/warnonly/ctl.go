package warnonly

import "github.com/gopher-fleece/runtime"

// @Tag(T)
// @Route(/c)
// @Security(schemeA, { scopes: ["read"] })
type C struct {
	runtime.GleeceController
}

// @Method(GET)
// @Route(/x)
func (c *C) M() error { return nil }

// @Method(GET)
// @Route(/x)
func (c *C) M2() error { return nil }

