package dupurlparam

import "github.com/gopher-fleece/runtime"

// @Tag(T)
// @Route(/c)
// @Security(schemeA, { scopes: ["read"] })
type C struct {
	runtime.GleeceController
}

// @Method(GET)
// @Route(/x/{id}/y/{id})
func (c *C) M() error { return nil }

