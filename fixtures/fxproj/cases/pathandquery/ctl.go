package pathandquery

import "github.com/gopher-fleece/runtime"

// @Tag(T)
// @Route(/c)
// @Security(schemeA, { scopes: ["read"] })
type C struct {
	runtime.GleeceController
}

// @Method(GET)
// @Route(/x/{id})
// @Path(id)
// @Query(id)
func (c *C) M(id string) error { return nil }

