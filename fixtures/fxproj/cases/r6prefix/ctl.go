package r6prefix

import "github.com/gopher-fleece/runtime"

// @Tag(T)
// @Route(/a/{tenant})
// @Security(schemeA, { scopes: ["read"] })
type C struct {
	runtime.GleeceController
}

// @Method(GET)
// @Route(/y)
// @Path(id)
func (c *C) M(id string) error { return nil }

