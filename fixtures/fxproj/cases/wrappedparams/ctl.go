package wrappedparams

import "github.com/gopher-fleece/runtime"

// @Tag(T)
// @Route(/c)
// @Security(schemeA, { scopes: ["read"] })
type C struct {
	runtime.GleeceController
}

// @Method(GET)
// @Route(/x)
// @Query(firstName)
func (c *C) Search(firstName,
	lastName string,
) error {
	return nil
}

