package queryandheader

import "github.com/gopher-fleece/runtime"

// @Tag(T)
// @Route(/c)
// @Security(schemeA, { scopes: ["read"] })
type C struct {
	runtime.GleeceController
}

// @Method(GET)
// @Route(/x)
// @Query(v)
// @Header(v)
func (c *C) M(v string) error { return nil }

