package wrappedok

import "github.com/gopher-fleece/runtime"

// @Tag(T)
// @Route(/c)
// @Security(schemeA, { scopes: ["read"] })
type C struct {
	runtime.GleeceController
}

// @Method(GET)
// @Route(/x)
// @Query(firstName)
// @Query(lastName)
func (c *C) Search(
	firstName string,
	lastName struct {
		A string
	},
) (
	string,
	error,
) {
	return "", nil
}

