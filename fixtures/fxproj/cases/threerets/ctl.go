package threerets

import "github.com/gopher-fleece/runtime"

// @Tag(T)
// @Route(/c)
// @Security(schemeA, { scopes: ["read"] })
type C struct {
	runtime.GleeceController
}

// @Method(GET)
// @Route(/x)
func (c *C) M() (string, int, error) { return "", 0, nil }

