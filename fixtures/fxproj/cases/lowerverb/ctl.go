package lowerverb

import "github.com/gopher-fleece/runtime"

// @Tag(T)
// @Route(/c)
// @Security(schemeA, { scopes: ["read"] })
type C struct {
	runtime.GleeceController
}

// @Method(get)
// @Route(/x)
func (c *C) M() error { return nil }

