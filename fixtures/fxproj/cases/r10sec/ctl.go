package r10sec

import "github.com/gopher-fleece/runtime"

// @Tag(T)
// @Route(/c)
type C struct {
	runtime.GleeceController
}

// @Method(GET)
// @Route(/x)
// @Security(schemeB)
// @Header(schemeB)
func (c *C) M(schemeB string) error { return nil }

