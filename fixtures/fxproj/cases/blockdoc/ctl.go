package blockdoc

import "github.com/gopher-fleece/runtime"

/*
A controller documented with a block comment and no tag annotation at all,
spread over several lines so that its end lies on a later line than its start.
@Route(/c)
*/
type C struct {
	runtime.GleeceController
}

// @Method(GET)
// @Route(/x)
// @Security(schemeA, { scopes: ["read"] })
func (c *C) M() error { return nil }
