package conflictanderror

import "github.com/gopher-fleece/runtime"

// @Tag(T)
// @Route(/c)
// @Security(schemeA, { scopes: ["read"] })
type C struct {
	runtime.GleeceController
}

// @Method(GET)
// @Route(/items/{id})
// @Query(id)
func (c *C) ByID(id string) error { return nil }

// @Method(GET)
// @Route(/items/{name})
// @Path(name)
func (c *C) ByName(name string) error { return nil }

