package pathandheader

import "github.com/gopher-fleece/runtime"

// @Tag(T)
// @Route(/c)
// @Security(schemeA, { scopes: ["read"] })
type C struct {
	runtime.GleeceController
}

// @Method(GET)
// @Route(/x/{id})
// @Header(id)
// @Path(id)
func (c *C) M(id string) error { return nil }

