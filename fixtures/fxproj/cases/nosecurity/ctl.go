package nosecurity

import "github.com/gopher-fleece/runtime"

// @Tag(T)
// @Route(/c)
type C struct {
	runtime.GleeceController
}

// @Method(GET)
// @Route(/x)
func (c *C) M() error { return nil }

