package shapegeneric

import "github.com/gopher-fleece/runtime"

// @Tag(T)
// @Route(/c)
// @Security(schemeA, { scopes: ["read"] })
type C struct {
	runtime.GleeceController
}

type GNode[T any] struct {
	Value T
	Next  *GNode[T]
}

// @Method(POST)
// @Route(/x)
// @Body(b)
func (c *C) M(b GNode[string]) error { return nil }

