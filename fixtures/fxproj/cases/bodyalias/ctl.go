package bodyalias

import "github.com/gopher-fleece/runtime"

// @Tag(T)
// @Route(/c)
// @Security(schemeA, { scopes: ["read"] })
type C struct {
	runtime.GleeceController
}

type Note struct {
	Text string `json:"text"`
}

type NoteAlias Note

// @Method(POST)
// @Route(/x)
// @Body(b)
func (c *C) M(b NoteAlias) error { return nil }

