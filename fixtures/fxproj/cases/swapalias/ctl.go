package swapalias

import "github.com/gopher-fleece/runtime"

// @Tag(T)
// @Route(/c)
// @Security(schemeA, { scopes: ["read"] })
type C struct {
	runtime.GleeceController
}

// @Method(GET)
// @Route(/swap/{a}/{b})
// @Path(a, { name: "b" })
// @Path(b, { name: "a" })
func (c *C) M(a string, b string) error { return nil }

