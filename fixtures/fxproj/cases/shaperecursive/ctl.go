package shaperecursive

import "github.com/gopher-fleece/runtime"

// @Tag(T)
// @Route(/c)
// @Security(schemeA, { scopes: ["read"] })
type C struct {
	runtime.GleeceController
}

type N struct {
	Name string
	Next *N
	Kids []N
	Index map[string][]N
}

// @Method(POST)
// @Route(/x)
// @Body(b)
func (c *C) M(b N) (N, error) { return b, nil }

