package sliceform

import "github.com/gopher-fleece/runtime"

// @Tag(T)
// @Route(/c)
// @Security(schemeA, { scopes: ["read"] })
type C struct {
	runtime.GleeceController
}

// @Method(POST)
// @Route(/x)
// @FormField(f)
func (c *C) M(f []string) error { return nil }

