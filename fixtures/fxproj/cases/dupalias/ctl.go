package dupalias

import "github.com/gopher-fleece/runtime"

// @Tag(T)
// @Route(/c)
// @Security(schemeA, { scopes: ["read"] })
type C struct {
	runtime.GleeceController
}

// @Method(GET)
// @Route(/items/{id})
// @Path(first, { name: "id" })
// @Path(second, { name: "id" })
func (c *C) M(first string, second string) error { return nil }

