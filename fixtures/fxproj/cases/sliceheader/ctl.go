package sliceheader

import "github.com/gopher-fleece/runtime"

// @Tag(T)
// @Route(/c)
// @Security(schemeA, { scopes: ["read"] })
type C struct {
	runtime.GleeceController
}

// @Method(GET)
// @Route(/x)
// @Header(h)
func (c *C) M(h []string) error { return nil }

