package unexportedroute

import "github.com/gopher-fleece/runtime"

// @Tag(T)
// @Route(/c)
// @Security(schemeA, { scopes: ["read"] })
type C struct {
	runtime.GleeceController
}

// @Method(GET)
// @Route(/ping)
func (c *C) Ping() error { return nil }

// @Method(DELETE)
// @Route(/purge)
func (c *C) purge() error { return nil }

