package urlparamsubstring

import "github.com/gopher-fleece/runtime"

// @Tag(T)
// @Route(/c)
// @Security(schemeA, { scopes: ["read"] })
type C struct {
	runtime.GleeceController
}

// @Method(GET)
// @Route(/items/{item})
// @Query(item)
func (c *C) M(item string) error { return nil }

