package formthenbody

import "github.com/gopher-fleece/runtime"

// @Tag(T)
// @Route(/c)
// @Security(schemeA, { scopes: ["read"] })
type C struct {
	runtime.GleeceController
}

type B struct{ X int }

// @Method(POST)
// @Route(/x)
// @FormField(f)
// @Body(b)
func (c *C) M(f string, b B) error { return nil }

