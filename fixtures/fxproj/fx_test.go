package fxproj

// Bounded stand-ins that run the real generator (through the replace directive on /repo) on this fixture project.

import (
	"bytes"
	"encoding/json"
	"fmt"
	"os"
	"path/filepath"
	"sort"
	"strings"
	"testing"

	"github.com/gopher-fleece/gleece/v2/cmd"
	"github.com/gopher-fleece/gleece/v2/cmd/arguments"
)

func genInto(t *testing.T, dir string, mutate func(cfg map[string]any)) (routes, spec []byte, err error) {
	raw, rerr := os.ReadFile("gleece.config.json")
	if rerr != nil {
		t.Fatal(rerr)
	}
	var cfg map[string]any
	if jerr := json.Unmarshal(raw, &cfg); jerr != nil {
		t.Fatal(jerr)
	}
	cfg["routesConfig"].(map[string]any)["outputPath"] = filepath.Join(dir, "routes.go")
	cfg["openapiGeneratorConfig"].(map[string]any)["specGeneratorConfig"].(map[string]any)["outputPath"] = filepath.Join(dir, "openapi.json")
	if mutate != nil {
		mutate(cfg)
	}
	b, _ := json.Marshal(cfg)
	// the config must sit next to the sources: controller globs are relative to the working directory
	cfgPath := filepath.Join(dir, "gleece.config.json")
	os.WriteFile(cfgPath, b, 0o644)
	err = cmd.GenerateSpecAndRoutes(arguments.CliArguments{ConfigPath: cfgPath})
	routes, _ = os.ReadFile(filepath.Join(dir, "routes.go"))
	spec, _ = os.ReadFile(filepath.Join(dir, "openapi.json"))
	return
}

// C13: repeated runs in fresh pipelines must give byte-identical artefacts.
func TestVerifC13Determinism(t *testing.T) {
	runs := 6
	if os.Getenv("VERIF_TIER") == "thorough" {
		runs = 24
	}
	var firstRoutes, firstSpec []byte
	failed := false
	for i := 0; i < runs; i++ {
		r, s, err := genInto(t, t.TempDir(), nil)
		if err != nil {
			fmt.Printf("VERIF-FAIL: class=generation-failed run %d: %v\n", i, err)
			failed = true
			break
		}
		// the output path is part of no artefact; compare as is
		if i == 0 {
			firstRoutes, firstSpec = r, s
			continue
		}
		if !bytes.Equal(r, firstRoutes) {
			fmt.Printf("VERIF-FAIL: class=routes-file-differs-between-runs run %d differs from run 0: %s\n", i, firstDiff(firstRoutes, r))
			failed = true
			break
		}
		if !bytes.Equal(s, firstSpec) {
			fmt.Printf("VERIF-FAIL: class=spec-differs-between-runs run %d differs from run 0: %s\n", i, firstDiff(firstSpec, s))
			failed = true
			break
		}
	}
	fmt.Printf("VERIF-CASES: %d (fresh generator runs on the fixture project, artefacts compared byte for byte)\n", runs)
	fmt.Println("VERIF-DONE")
	if failed {
		t.Fail()
	}
}

func firstDiff(a, b []byte) string {
	la, lb := strings.Split(string(a), "\n"), strings.Split(string(b), "\n")
	for i := 0; i < len(la) && i < len(lb); i++ {
		if la[i] != lb[i] {
			return fmt.Sprintf("line %d: %q vs %q", i+1, strings.TrimSpace(la[i]), strings.TrimSpace(lb[i]))
		}
	}
	return fmt.Sprintf("lengths %d vs %d", len(la), len(lb))
}

var _ = sort.Strings
