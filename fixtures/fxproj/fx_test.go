package fxproj

// Bounded stand-ins that run the real generator (through the replace directive on /repo) on this fixture project.

import (
	"bytes"
	"encoding/json"
	"fmt"
	"os"
	"os/exec"
	"path/filepath"
	"sort"
	"strings"
	"testing"

	"github.com/gopher-fleece/gleece/v2/cmd"
	"github.com/gopher-fleece/gleece/v2/cmd/arguments"
	"github.com/gopher-fleece/gleece/v2/core/pipeline"
	"github.com/gopher-fleece/gleece/v2/definitions"
	"github.com/gopher-fleece/gleece/v2/core/validators/diagnostics"
)

func genInto(t *testing.T, dir string, mutate func(cfg map[string]any)) (routes, spec []byte, err error) {
	raw, rerr := os.ReadFile("gleece.config.json")
	if rerr != nil {
		t.Fatal(rerr)
	}
	var cfg map[string]any
	if jerr := json.Unmarshal(raw, &cfg); jerr != nil {
		t.Fatal(jerr)
	}
	cfg["routesConfig"].(map[string]any)["outputPath"] = filepath.Join(dir, "routes.go")
	cfg["openapiGeneratorConfig"].(map[string]any)["specGeneratorConfig"].(map[string]any)["outputPath"] = filepath.Join(dir, "openapi.json")
	if mutate != nil {
		mutate(cfg)
	}
	b, _ := json.Marshal(cfg)
	// the config must sit next to the sources: controller globs are relative to the working directory
	cfgPath := filepath.Join(dir, "gleece.config.json")
	os.WriteFile(cfgPath, b, 0o644)
	err = cmd.GenerateSpecAndRoutes(arguments.CliArguments{ConfigPath: cfgPath})
	routes, _ = os.ReadFile(filepath.Join(dir, "routes.go"))
	spec, _ = os.ReadFile(filepath.Join(dir, "openapi.json"))
	return
}

// C13: repeated runs in fresh pipelines must give byte-identical artefacts.
func TestVerifC13Determinism(t *testing.T) {
	runs := 6
	if os.Getenv("VERIF_TIER") == "thorough" {
		runs = 24
	}
	var firstRoutes, firstSpec []byte
	failed := false
	for i := 0; i < runs; i++ {
		r, s, err := genInto(t, t.TempDir(), nil)
		if err != nil {
			fmt.Printf("VERIF-FAIL: class=generation-failed run %d: %v\n", i, err)
			failed = true
			break
		}
		// the output path is part of no artefact; compare as is
		if i == 0 {
			firstRoutes, firstSpec = r, s
			continue
		}
		if !bytes.Equal(r, firstRoutes) {
			fmt.Printf("VERIF-FAIL: class=routes-file-differs-between-runs run %d differs from run 0: %s\n", i, firstDiff(firstRoutes, r))
			failed = true
			break
		}
		if !bytes.Equal(s, firstSpec) {
			fmt.Printf("VERIF-FAIL: class=spec-differs-between-runs run %d differs from run 0: %s\n", i, firstDiff(firstSpec, s))
			failed = true
			break
		}
	}
	fmt.Printf("VERIF-CASES: %d (fresh generator runs on the fixture project, artefacts compared byte for byte)\n", runs)
	fmt.Println("VERIF-DONE")
	if failed {
		t.Fail()
	}
}

func firstDiff(a, b []byte) string {
	la, lb := strings.Split(string(a), "\n"), strings.Split(string(b), "\n")
	for i := 0; i < len(la) && i < len(lb); i++ {
		if la[i] != lb[i] {
			return fmt.Sprintf("line %d: %q vs %q", i+1, strings.TrimSpace(la[i]), strings.TrimSpace(lb[i]))
		}
	}
	return fmt.Sprintf("lengths %d vs %d", len(la), len(lb))
}

var _ = sort.Strings

// ---- spec-level stand-ins: the emitted documents against the fixture's annotations ----

type specDoc map[string]any

// configuration values the spec must carry literally (C20); the base URL deliberately ends with a slash
const fxBaseURL = "https://api.example.com/v1/"

func loadSpec(t *testing.T, version string) specDoc {
	_, spec, err := genInto(t, t.TempDir(), func(cfg map[string]any) {
		oc := cfg["openapiGeneratorConfig"].(map[string]any)
		oc["openapi"] = version
		oc["baseUrl"] = fxBaseURL
	})
	if err != nil {
		t.Fatalf("generation failed for %s: %v", version, err)
	}
	var doc specDoc
	if jerr := json.Unmarshal(spec, &doc); jerr != nil {
		t.Fatalf("spec is not JSON: %v", jerr)
	}
	return doc
}

func dig(v any, path ...string) any {
	for _, p := range path {
		if sd, isDoc := v.(specDoc); isDoc {
			v = map[string]any(sd)
		}
		m, ok := v.(map[string]any)
		if !ok {
			return nil
		}
		v = m[p]
	}
	return v
}

func strs(v any) []string {
	var out []string
	if l, ok := v.([]any); ok {
		for _, x := range l {
			out = append(out, fmt.Sprint(x))
		}
	}
	sort.Strings(out)
	return out
}

// what the fixture's annotations say (written from the source, not from the generator)
type wantOp struct {
	verb, path, opID, tag string
	deprecated            bool
	security              string // canonical "scheme[scope,scope]|..." per alternative
	params                []string // "name:in:required"
	body                  string   // "" or "required"/"optional"
	success               string
	errors                []string
}

var wantOps = []wantOp{
	{"post", "/alpha/items/{id}", "CreateAlpha", "Alpha", false, "schemeA[read]", []string{"id:path:true", "limit:query:false", "x-trace:header:true"}, "required", "201", []string{"404"}},
	{"delete", "/alpha/items/{id}", "DeleteAlpha", "Alpha", true, "schemeB[admin,orders:read&write,tenant's,write]", []string{"id:path:true"}, "", "204", nil},
	{"put", "/beta/things", "UpdateBeta", "Beta", false, "schemeD[read]", nil, "required", "200", nil},
	{"get", "/beta/things", "ListBeta", "Beta", false, "schemeD[read]", []string{"filter:query:true", "rank:query:true"}, "", "200", nil},
	{"patch", "/beta/things/{thingId}/", "PatchBeta", "Beta", false, "schemeD[read]", []string{"thingId:path:true"}, "optional", "202", []string{"409", "422"}},
	{"get", "/alpha/types", "AllTypes", "Alpha", false, "schemeA[read]", []string{"vint:query:true", "vint8:query:true", "vint16:query:true", "vint32:query:true", "vint64:query:true", "vuint:query:true", "vuint8:query:true", "vuint16:query:true", "vuint32:query:true", "vuint64:query:true", "vbool:query:true", "vfloat32:query:true", "vfloat64:query:true", "vstring:query:true", "puint:query:false", "pint64:query:false", "pfloat32:query:false", "pbool:query:false", "aint:query:true", "auint:query:true", "astring:query:true", "afloat64:query:true"}, "", "204", nil},
	{"get", "/alpha/count", "CountAlpha", "Alpha", false, "schemeA[read]", nil, "", "200", []string{"400", "503"}},
	{"put", "/gamma/receipts", "FileReceipt", "Gamma", false, "schemeD[read]", nil, "required", "200", nil},
	{"post", "/gamma/widgets", "CreateWidget", "Gamma", false, "schemeD[read]", nil, "required", "200", []string{"500"}},
	{"get", "/gamma/widgets/names", "ListWidgetNames", "Gamma", false, "schemeD[read]", []string{"colour:query:true"}, "", "200", nil},
	{"get", "/gamma/widgets/search", "SearchWidgets", "Gamma", false, "schemeD[read]", []string{"tenant:query:true", "region:query:true", "zone:query:true", "x-limit:header:true"}, "", "200", nil},
	{"post", "/gamma/receipts/{serial}", "IssueReceipt", "Gamma", false, "schemeD[read]", []string{"serial:path:true"}, "", "201", []string{"201"}},
	{"get", "/healthz", "Healthz", "", false, "schemeD[read]", []string{"verbose:query:true"}, "", "204", nil},
}

func checkOperations(doc specDoc, version string, report func(class, msg string)) {
	paths, _ := doc["paths"].(map[string]any)
	seen := map[string]bool{}
	for p, item := range paths {
		for verb := range item.(map[string]any) {
			seen[verb+" "+p] = true
		}
	}
	for _, w := range wantOps {
		key := w.verb + " " + w.path
		if !seen[key] {
			report("C01-operation-missing", fmt.Sprintf("%s: %s is annotated and not hidden but not documented", version, key))
			continue
		}
		delete(seen, key)
		op := dig(doc, "paths", w.path, w.verb)
		if got := fmt.Sprint(dig(op, "operationId")); got != w.opID {
			report("C01-operation-id", fmt.Sprintf("%s: %s operationId %q, want %q", version, key, got, w.opID))
		}
		if got := strs(dig(op, "tags")); fmt.Sprint(got) != fmt.Sprint([]string{w.tag}) {
			report("C01-tag", fmt.Sprintf("%s: %s tags %v, want [%s]", version, key, got, w.tag))
		}
		dep, _ := dig(op, "deprecated").(bool)
		if dep != w.deprecated {
			report("C01-deprecated", fmt.Sprintf("%s: %s deprecated=%v, want %v", version, key, dep, w.deprecated))
		}
		// security
		var alts []string
		if l, ok := dig(op, "security").([]any); ok {
			for _, alt := range l {
				var comps []string
				for name, sc := range alt.(map[string]any) {
					comps = append(comps, name+"["+strings.Join(strs(sc), ",")+"]")
				}
				sort.Strings(comps)
				alts = append(alts, strings.Join(comps, "&"))
			}
		}
		if got := strings.Join(alts, "|"); got != w.security {
			report("C04-operation-security", fmt.Sprintf("%s: %s security %q, want %q", version, key, got, w.security))
		}
		// parameters in signature order
		var params []string
		if l, ok := dig(op, "parameters").([]any); ok {
			for _, p := range l {
				req, _ := dig(p, "required").(bool)
				params = append(params, fmt.Sprintf("%v:%v:%v", dig(p, "name"), dig(p, "in"), req))
			}
		}
		if fmt.Sprint(params) != fmt.Sprint(w.params) {
			report("C06-parameters", fmt.Sprintf("%s: %s parameters %v, want %v", version, key, params, w.params))
		}
		body := ""
		if rb := dig(op, "requestBody"); rb != nil {
			body = "optional"
			if req, _ := dig(rb, "required").(bool); req {
				body = "required"
			}
		}
		if w.opID == "PatchBeta" {
			// form fields are documented under their wire names; a field is required iff its annotation says so
			sc := dig(op, "requestBody", "content", "application/x-www-form-urlencoded", "schema")
			var props []string
			if m, ok := dig(sc, "properties").(map[string]any); ok {
				for k := range m {
					props = append(props, k)
				}
			}
			sort.Strings(props)
			if req := strs(dig(sc, "required")); fmt.Sprint(props) != "[label_text lvl weight]" || fmt.Sprint(req) != "[label_text]" {
				report("C06-form-fields", fmt.Sprintf("%s: %s form body has properties %v required %v, want [label_text lvl weight] required [label_text]", version, key, props, req))
			}
		}
		if body != w.body {
			report("C06-request-body", fmt.Sprintf("%s: %s requestBody %q, want %q", version, key, body, w.body))
		}
		var codes []string
		if rs, ok := dig(op, "responses").(map[string]any); ok {
			for c := range rs {
				codes = append(codes, c)
			}
		}
		sort.Strings(codes)
		// kin-openapi's NewResponses() seeds a "default" entry in 3.0 documents; it is not an annotated code
		// (the 3.0/3.1 difference it causes is reported under C11)
		var annotated []string
		for _, c := range codes {
			if c != "default" {
				annotated = append(annotated, c)
			}
		}
		codes = annotated
		wantSet := map[string]bool{w.success: true}
		for _, e := range w.errors {
			wantSet[e] = true // an error response may share the success code: one entry in the document
		}
		var want []string
		for c := range wantSet {
			want = append(want, c)
		}
		sort.Strings(want)
		if fmt.Sprint(codes) != fmt.Sprint(want) {
			report("C06-responses", fmt.Sprintf("%s: %s responses %v, want %v", version, key, codes, want))
		}
	}
	for extra := range seen {
		if strings.Contains(extra, "/zeta") {
			report("C20-glob-excluded-controller", fmt.Sprintf("%s: %s comes from ctl/zeta_excluded.go, a file controllerGlobs does not match", version, extra))
		}
		report("C01-operation-extra", fmt.Sprintf("%s: %s is documented but not annotated (or hidden)", version, extra))
	}
}

// C20: info, servers and securitySchemes are those of the configuration, literally
func checkConfigHonoured(doc specDoc, version string, report func(class, msg string)) {
	if got := fmt.Sprint(dig(doc, "openapi")); got != version {
		report("C20-openapi-version", fmt.Sprintf("%s: document declares version %q", version, got))
	}
	var urls []string
	if l, ok := map[string]any(doc)["servers"].([]any); ok {
		for _, s := range l {
			urls = append(urls, fmt.Sprint(dig(s, "url")))
		}
	}
	if fmt.Sprint(urls) != fmt.Sprint([]string{fxBaseURL}) {
		report("C20-servers", fmt.Sprintf("%s: servers %v, want exactly the configured base URL [%s]", version, urls, fxBaseURL))
	}
	for k, want := range map[string]string{"title": "Fixture API", "description": "Fixture", "termsOfService": "http://example.com/terms/", "version": "1.0.0"} {
		if got := fmt.Sprint(dig(doc, "info", k)); got != want {
			report("C20-info", fmt.Sprintf("%s: info.%s = %q, want %q", version, k, got, want))
		}
	}
	// the OAuth2 scheme: each flow with its own URLs and exactly its own scopes
	for kind, want := range map[string]string{
		"password":          "token=https://auth.example.com/token refresh=<nil> scopes=map[read:Read things]",
		"clientCredentials": "token=https://auth.example.com/cc refresh=https://auth.example.com/refresh scopes=map[admin:Administer audit:Audit]",
	} {
		fl := dig(doc, "components", "securitySchemes", "schemeO", "flows", kind)
		if got := fmt.Sprintf("token=%v refresh=%v scopes=%v", dig(fl, "tokenUrl"), dig(fl, "refreshUrl"), dig(fl, "scopes")); got != want {
			report("C20-security-flows", fmt.Sprintf("%s: securitySchemes.schemeO.flows.%s is {%s}, configuration says {%s}", version, kind, got, want))
		}
	}
	if fmt.Sprint(dig(doc, "components", "securitySchemes", "schemeO", "type")) != "oauth2" {
		report("C20-security-scheme", fmt.Sprintf("%s: securitySchemes.schemeO is not documented as oauth2", version))
	}
	for name, field := range map[string]string{"schemeA": "x-a", "schemeB": "x-b", "schemeD": "x-d"} {
		sc := dig(doc, "components", "securitySchemes", name)
		if fmt.Sprint(dig(sc, "type")) != "apiKey" || fmt.Sprint(dig(sc, "in")) != "header" || fmt.Sprint(dig(sc, "name")) != field {
			report("C20-security-scheme", fmt.Sprintf("%s: securitySchemes.%s = %v, want apiKey in header named %s", version, name, sc, field))
		}
	}
}

func checkComponents(doc specDoc, version string, report func(class, msg string)) {
	schemas, _ := dig(doc, "components", "schemas").(map[string]any)
	var names []string
	for n := range schemas {
		names = append(names, n)
	}
	sort.Strings(names)
	if want := []string{"AlphaBody", "BetaBody", "Colour", "Flag", "Priority", "Rank", "Receipt", "Rfc7807Error", "Widget"}; fmt.Sprint(names) != fmt.Sprint(want) {
		report("C07-component-set", fmt.Sprintf("%s: components %v, want %v", version, names, want))
	}
	if got, want := strs(dig(schemas["Rank"], "enum")), []string{"high", "low", "mid", "top"}; fmt.Sprint(got) != fmt.Sprint(want) {
		report("C07-enum-values-depend-on-usage", fmt.Sprintf("%s: component Rank.enum = %v, want the declared constants %v (a usage-site validate tag must not rewrite the shared component)", version, got, want))
	}
	props := func(name string) []string {
		var out []string
		if m, ok := dig(schemas[name], "properties").(map[string]any); ok {
			for k := range m {
				out = append(out, k)
			}
		}
		sort.Strings(out)
		return out
	}
	if got, want := props("AlphaBody"), []string{"name", "rank"}; fmt.Sprint(got) != fmt.Sprint(want) {
		report("C07-properties", fmt.Sprintf("%s: AlphaBody properties %v, want %v", version, got, want))
	}
	if got, want := props("BetaBody"), []string{"count", "note", "rank", "ratio", "tags"}; fmt.Sprint(got) != fmt.Sprint(want) {
		report("C07-properties", fmt.Sprintf("%s: BetaBody properties %v, want %v", version, got, want))
	}
	if got, want := props("Widget"), []string{"H", "W", "colour", "flag", "priority", "title"}; fmt.Sprint(got) != fmt.Sprint(want) {
		report("C07-properties", fmt.Sprintf("%s: Widget properties %v, want %v (fields declared together are all properties)", version, got, want))
	}
	if got, want := strs(dig(schemas["AlphaBody"], "required")), []string{"name"}; fmt.Sprint(got) != fmt.Sprint(want) {
		report("C07-required", fmt.Sprintf("%s: AlphaBody required %v, want %v", version, got, want))
	}
	var schemes []string
	if m, ok := dig(doc, "components", "securitySchemes").(map[string]any); ok {
		for k := range m {
			schemes = append(schemes, k)
		}
	}
	sort.Strings(schemes)
	if want := []string{"schemeA", "schemeB", "schemeD", "schemeO"}; fmt.Sprint(schemes) != fmt.Sprint(want) {
		report("C04-security-schemes", fmt.Sprintf("%s: securitySchemes %v, want %v", version, schemes, want))
	}
}

func TestVerifSpecAgainstAnnotations(t *testing.T) {
	fails := map[string]string{}
	report := func(class, msg string) {
		if _, dup := fails[class]; !dup {
			fails[class] = msg
		}
	}
	docs := map[string]specDoc{}
	for _, v := range []string{"3.0.0", "3.1.0"} {
		docs[v] = loadSpec(t, v)
		checkOperations(docs[v], v, report)
		checkComponents(docs[v], v, report)
		checkConfigHonoured(docs[v], v, report)
	}
	// C11: the two documents describe the same API, aspect by aspect
	aspects := func(doc specDoc) map[string]string {
		out := map[string]string{}
		paths, _ := map[string]any(doc)["paths"].(map[string]any)
		for p, item := range paths {
			for verb, op := range item.(map[string]any) {
				key := verb + " " + p
				out["operationId "+key] = fmt.Sprint(dig(op, "operationId"))
				out["tags "+key] = fmt.Sprint(strs(dig(op, "tags")))
				out["deprecated "+key] = fmt.Sprint(dig(op, "deprecated") == true)
				out["security "+key] = fmt.Sprint(dig(op, "security"))
				var ps []string
				if l, ok := dig(op, "parameters").([]any); ok {
					for _, prm := range l {
						ps = append(ps, fmt.Sprintf("%v:%v:%v:%v", dig(prm, "name"), dig(prm, "in"), dig(prm, "required") == true, dig(prm, "schema", "type")))
					}
				}
				out["parameters "+key] = fmt.Sprint(ps)
				out["requestBody "+key] = fmt.Sprint(dig(op, "requestBody") != nil, dig(op, "requestBody", "required") == true)
				if cm, ok := dig(op, "requestBody", "content").(map[string]any); ok {
					// the body's media types and, for each, the shape of its schema
					for ct, media := range cm {
						sc := dig(media, "schema")
						var props []string
						if m, ok := dig(sc, "properties").(map[string]any); ok {
							for k, pv := range m {
								props = append(props, fmt.Sprintf("%s:%v:%v", k, dig(pv, "type"), dig(pv, "$ref")))
							}
						}
						sort.Strings(props)
						req := strs(dig(sc, "required"))
						sort.Strings(req)
						out["requestBodySchema "+key+" "+ct] = fmt.Sprintf("type=%v ref=%v properties=%v required=%v", dig(sc, "type"), dig(sc, "$ref"), props, req)
					}
				}
				var codes []string
				if rs, ok := dig(op, "responses").(map[string]any); ok {
					for c := range rs {
						codes = append(codes, c)
					}
				}
				sort.Strings(codes)
				out["responseCodes "+key] = fmt.Sprint(codes)
				for _, c := range codes {
					if c == "default" {
						continue
					}
					r := dig(op, "responses", c)
					out["response "+key+" "+c] = fmt.Sprintf("description=%q schema=%v", strings.TrimSpace(fmt.Sprint(dig(r, "description"))), dig(r, "content", "application/json", "schema", "$ref"))
				}
			}
		}
		schemas, _ := dig(doc, "components", "schemas").(map[string]any)
		for n, sc := range schemas {
			out["schema.type "+n] = fmt.Sprint(dig(sc, "type"))
			// the value set is compared by spelling, the JSON types of the values separately (a 3.0 "1" and a 3.1 1 are
			// the same spelling but not the same value)
			var spell, kinds []string
			if l, ok := dig(sc, "enum").([]any); ok {
				for _, ev := range l {
					if sv, isStr := ev.(string); isStr {
						spell = append(spell, sv)
					} else {
						b, _ := json.Marshal(ev)
						spell = append(spell, string(b))
					}
					kinds = append(kinds, jsonKindOf(ev))
				}
			}
			sort.Strings(spell)
			sort.Strings(kinds)
			out["schema.enum "+n] = fmt.Sprint(spell)
			out["schema.enumtypes "+n] = fmt.Sprint(kinds)
			out["schema.required "+n] = fmt.Sprint(strs(dig(sc, "required")))
			var props []string
			if m, ok := dig(sc, "properties").(map[string]any); ok {
				for k, pv := range m {
					props = append(props, fmt.Sprintf("%s:%v:%v", k, dig(pv, "type"), dig(pv, "$ref")))
					out["schema.bounds "+n+"."+k] = boundsOf(pv)
				}
			}
			sort.Strings(props)
			out["schema.properties "+n] = fmt.Sprint(props)
		}
		return out
	}
	a30, a31 := aspects(docs["3.0.0"]), aspects(docs["3.1.0"])
	keys := map[string]bool{}
	for k := range a30 {
		keys[k] = true
	}
	for k := range a31 {
		keys[k] = true
	}
	var ks []string
	for k := range keys {
		ks = append(ks, k)
	}
	sort.Strings(ks)
	for _, k := range ks {
		if a30[k] != a31[k] {
			aspect := strings.Fields(k)[0]
			if aspect == "responseCodes" && strings.ReplaceAll(a30[k], " default", "") == a31[k] {
				aspect = "responseCodes-default-entry"
			}
			if aspect == "schema.enumtypes" {
				aspect += "-" + strings.Fields(k)[1] // one class per component: a finding is one input
			}
			report("C11-"+aspect, fmt.Sprintf("%s: 3.0.0 has %s, 3.1.0 has %s", k, a30[k], a31[k]))
		}
	}
	want := os.Getenv("VERIF_PROPERTY")
	n := 0
	var classes []string
	for c := range fails {
		classes = append(classes, c)
	}
	sort.Strings(classes)
	for _, c := range classes {
		if want != "" && !strings.HasPrefix(c, want+"-") {
			continue
		}
		n++
		fmt.Printf("VERIF-FAIL: class=%s %s\n", c, strings.ReplaceAll(fails[c], "\n", " ; "))
	}
	fmt.Printf("VERIF-CASES: %d (operations x 2 OpenAPI versions on the fixture project)\n", len(wantOps)*2)
	fmt.Println("VERIF-DONE")
	if n > 0 {
		t.Fail()
	}
}

// TestRender writes the routes file of every engine into out/<engine>/routes.go (package routes) so that the
// rendered Go helpers (authorize, ...) can be loaded and verified, and so that the handler checks can read them.
func TestRender(t *testing.T) {
	for _, engine := range []string{"gin", "echo", "mux", "chi", "fiber"} {
		dir := filepath.Join("out", engine)
		os.RemoveAll(dir)
		os.MkdirAll(dir, 0o755)
		abs, _ := filepath.Abs(dir)
		r, _, err := genInto(t, abs, func(cfg map[string]any) {
			rc := cfg["routesConfig"].(map[string]any)
			rc["engine"] = engine
			rc["authorizationConfig"].(map[string]any)["authFileFullPackageName"] = "fxproj/auth/" + engine
		})
		if err != nil || len(r) == 0 {
			t.Fatalf("render %s: %v", engine, err)
		}
		os.Remove(filepath.Join(abs, "openapi.json"))
		os.Remove(filepath.Join(abs, "gleece.config.json"))
	}
	fmt.Println("VERIF-DONE")
}

// C19: analysing the unchanged project again in the same session gives the same result as the first analysis
// and as a brand-new session, and the symbol graph does not grow.
func TestVerifC19Reanalysis(t *testing.T) {
	passes := 3
	if os.Getenv("VERIF_TIER") == "thorough" {
		passes = 6
	}
	cfg, err := cmd.LoadGleeceConfig("gleece.config.json")
	if err != nil {
		t.Fatal(err)
	}
	failed := false
	fail := func(class, msg string) {
		fmt.Printf("VERIF-FAIL: class=%s %s\n", class, msg)
		failed = true
	}
	pipe, err := pipeline.NewGleecePipeline(cfg)
	if err != nil {
		t.Fatal(err)
	}
	first, err := pipe.Run()
	if err != nil {
		t.Fatalf("first analysis failed: %v", err)
	}
	// import name sets are unordered (they are sorted when the routes file is rendered)
	canon := func(m pipeline.GleeceFlattenedMetadata) []byte {
		for _, names := range m.Imports {
			sort.Strings(names)
		}
		b, _ := json.Marshal(m)
		return b
	}
	firstJSON := canon(first)
	graphOf := func() string {
		lines := strings.Split(pipe.Graph().String(), "\n")
		sort.Strings(lines)
		return strings.Join(lines, "\n")
	}
	firstGraph := graphOf()
	for i := 2; i <= passes; i++ {
		again, err := pipe.Run()
		if err != nil {
			fail("reanalysis-fails", fmt.Sprintf("analysis pass %d on the same pipeline failed: %v", i, err))
			break
		}
		againJSON := canon(again)
		if !bytes.Equal(firstJSON, againJSON) {
			fail("reanalysis-differs", fmt.Sprintf("analysis pass %d differs from the first: %s", i, firstDiff(firstJSON, againJSON)))
			break
		}
		if g := graphOf(); g != firstGraph {
			fail("graph-changed", fmt.Sprintf("the symbol graph changed on analysis pass %d (length %d -> %d)", i, len(firstGraph), len(g)))
			break
		}
	}
	fresh, err := pipeline.NewGleecePipeline(cfg)
	if err == nil {
		fm, ferr := fresh.Run()
		fj := canon(fm)
		if ferr != nil || !bytes.Equal(fj, firstJSON) {
			fail("fresh-session-differs", fmt.Sprintf("a brand-new session differs from the first analysis (err=%v)", ferr))
		}
	}
	fmt.Printf("VERIF-CASES: %d (analysis passes on one pipeline + one fresh session)\n", passes+1)
	fmt.Println("VERIF-DONE")
	if failed {
		t.Fail()
	}
}

// C10 (and C18's no-duplicate clause): a corpus of small projects, each accepted or rejected as the statement says;
// on rejection nothing may be written.
func TestVerifC10AcceptReject(t *testing.T) {
	entries, _ := os.ReadDir("cases")
	n := 0
	failed := false
	only := os.Getenv("VERIF_PROPERTY") // report only this property's classes (C10 or C18) when set
	for _, e := range entries {
		if !e.IsDir() {
			continue
		}
		name := e.Name()
		exp, _ := os.ReadFile(filepath.Join("cases", name, "expect.txt"))
		want := strings.TrimSpace(string(exp))
		n++
		dir := t.TempDir()
		r, s, err := genInto(t, dir, func(cfg map[string]any) {
			cfg["commonConfig"].(map[string]any)["controllerGlobs"] = []any{"./cases/" + name + "/*.go"}
			if want == "reject-nodefault" {
				delete(cfg["openapiGeneratorConfig"].(map[string]any), "defaultSecurity")
			}
		})
		accepted := err == nil
		switch {
		case only == "C18" || only == "C14":
			// (C14 only asks that every run ends normally: a crash ends the test binary and the stand-in with it)
		case want == "any":
			// unsupported or unusual type shapes: accepted or rejected with a message, but the run must end normally
		case want == "accept" && !accepted:
			fmt.Printf("VERIF-FAIL: class=C10-wellformed-project-rejected-%s project cases/%s is well linked but was rejected: %v\n", name, name, firstLine(err))
			failed = true
		case want != "accept" && accepted:
			fmt.Printf("VERIF-FAIL: class=C10-illformed-project-accepted-%s project cases/%s violates the linking rules but was accepted\n", name, name)
			failed = true
		}
		if only == "C18" || only == "C14" {
			failed = false // C10 classes above are not this run's concern
		}
		if !accepted && want != "any" && (len(r) > 0 || len(s) > 0) && only != "C18" && only != "C14" {
			fmt.Printf("VERIF-FAIL: class=C10-output-written-on-rejection-%s project cases/%s was rejected but artefacts were written\n", name, name)
			failed = true
		}
		if !accepted && want != "accept" && want != "any" && only != "C10" && only != "C14" {
			// C18: no entity is listed twice in the command's error text
			text := err.Error()
			// within one entity block no diagnostic line may repeat
			block := map[string]bool{}
			for _, line := range strings.Split(text, "\n") {
				line = strings.TrimSpace(line)
				if strings.HasPrefix(line, "Receiver ") || strings.HasPrefix(line, "Controller ") {
					block = map[string]bool{}
					continue
				}
				if line == "" || !strings.Contains(line, " at ") || !strings.Contains(line, " - ") {
					continue
				}
				if block[line] {
					fmt.Printf("VERIF-FAIL: class=C18-diagnostic-reported-twice-%s the error text of cases/%s repeats the diagnostic %q inside one entity\n", name, name, line)
					failed = true
					break
				}
				block[line] = true
			}
			for _, line := range strings.Split(text, "\n") {
				line = strings.TrimSpace(line)
				if strings.HasPrefix(line, "Receiver ") && strings.Count(text, line) > 1 {
					fmt.Printf("VERIF-FAIL: class=C18-entity-reported-twice the error text of cases/%s lists %q %d times\n", name, line, strings.Count(text, line))
					failed = true
					break
				}
			}
		}
	}
	fmt.Printf("VERIF-CASES: %d (projects of the accept/reject corpus)\n", n)
	fmt.Println("VERIF-DONE")
	if failed {
		t.Fail()
	}
}

// boundsOf: the numeric / length / item bounds, pattern and value set of one property schema, with the two dialects'
// spellings of exclusive bounds translated into one (3.0: minimum + exclusiveMinimum:true; 3.1: exclusiveMinimum: n)
func boundsOf(pv any) string {
	m, _ := pv.(map[string]any)
	var parts []string
	lower, upper := "", ""
	if v, ok := m["minimum"]; ok {
		lower = fmt.Sprintf(">=%v", v)
		if ex, _ := m["exclusiveMinimum"].(bool); ex {
			lower = fmt.Sprintf(">%v", v)
		}
	}
	if v, ok := m["exclusiveMinimum"].(float64); ok {
		lower = fmt.Sprintf(">%v", v)
	}
	if v, ok := m["maximum"]; ok {
		upper = fmt.Sprintf("<=%v", v)
		if ex, _ := m["exclusiveMaximum"].(bool); ex {
			upper = fmt.Sprintf("<%v", v)
		}
	}
	if v, ok := m["exclusiveMaximum"].(float64); ok {
		upper = fmt.Sprintf("<%v", v)
	}
	parts = append(parts, "lower="+lower, "upper="+upper)
	for _, k := range []string{"minLength", "maxLength", "minItems", "maxItems", "pattern", "format", "uniqueItems"} {
		if v, ok := m[k]; ok {
			parts = append(parts, fmt.Sprintf("%s=%v", k, v))
		}
	}
	if l, ok := m["enum"].([]any); ok {
		var vs []string
		for _, e := range l {
			vs = append(vs, fmt.Sprint(e))
		}
		sort.Strings(vs)
		parts = append(parts, "enum="+strings.Join(vs, "|"))
	}
	return strings.Join(parts, " ")
}

func firstLine(err error) string {
	if err == nil {
		return ""
	}
	return strings.SplitN(err.Error(), "\n", 2)[0]
}

// C09: the routes file generated for every engine type-checks against the engine, the controllers and the
// authorization package of the fixture project (go build of the rendered packages).
func TestVerifC09RenderedCompiles(t *testing.T) {
	TestRender(t)
	failed := false
	for _, engine := range []string{"gin", "echo", "mux", "chi", "fiber"} {
		cmd := exec.Command("go", "build", "./out/"+engine)
		cmd.Env = append(os.Environ(), "GOFLAGS=-mod=mod", "GOPROXY=off")
		if out, err := cmd.CombinedOutput(); err != nil {
			fmt.Printf("VERIF-FAIL: class=C09-rendered-does-not-compile-%s %s\n", engine, strings.ReplaceAll(firstN(string(out), 600), "\n", " ; "))
			failed = true
		}
	}
	fmt.Println("VERIF-CASES: 5 (rendered routes packages, one per engine)")
	fmt.Println("VERIF-DONE")
	if failed {
		t.Fail()
	}
}

func firstN(s string, n int) string {
	if len(s) > n {
		return s[:n]
	}
	return s
}


// C18: every diagnostic (warnings included) names a file that exists and a range that lies inside that file.
func TestVerifC18Ranges(t *testing.T) {
	entries, _ := os.ReadDir("cases")
	globs := [][]string{{"./ctl/alpha*.go", "./ctl/beta.go", "./ctl/gamma.go"}}
	for _, e := range entries {
		if e.IsDir() {
			globs = append(globs, []string{"./cases/" + e.Name() + "/*.go"})
		}
	}
	failed := false
	n := 0
	for _, g := range globs {
		raw, _ := os.ReadFile("gleece.config.json")
		var cfg definitions.GleeceConfig
		if err := json.Unmarshal(raw, &cfg); err != nil {
			t.Fatal(err)
		}
		cfg.CommonConfig.ControllerGlobs = g
		pipe, err := pipeline.NewGleecePipeline(&cfg)
		if err != nil {
			continue
		}
		if err := pipe.GenerateGraph(); err != nil {
			continue
		}
		diags, err := pipe.Validate()
		if err != nil {
			continue
		}
		var walk func(d *diagnostics.EntityDiagnostic)
		walk = func(d *diagnostics.EntityDiagnostic) {
			for _, rd := range d.Diagnostics {
				n++
				src, ferr := os.ReadFile(rd.FilePath)
				if ferr != nil {
					fmt.Printf("VERIF-FAIL: class=C18-file-missing diagnostic %q of %s names file %q which cannot be read\n", rd.Code, d.EntityName, rd.FilePath)
					failed = true
					continue
				}
				lines := strings.Split(string(src), "\n")
				r := rd.Range
				ok := r.StartLine >= 0 && r.StartLine <= r.EndLine && r.EndLine < len(lines) && r.StartCol >= 0 && r.EndCol >= 0 &&
					r.StartCol <= len(lines[r.StartLine]) && r.EndCol <= len(lines[r.EndLine]) && (r.StartLine < r.EndLine || r.StartCol <= r.EndCol)
				if !ok {
					fmt.Printf("VERIF-FAIL: class=C18-range-outside-file diagnostic %q of %s (%s): range %d:%d-%d:%d does not lie inside %s (%d lines)\n", rd.Code, d.EntityKind, d.EntityName, r.StartLine, r.StartCol, r.EndLine, r.EndCol, rd.FilePath, len(lines))
					failed = true
				}
				// a diagnostic about a {name} of the route points at that {name}
				if ok && (rd.Code == string(diagnostics.DiagLinkerRouteMissingPath) || rd.Code == string(diagnostics.DiagLinkerDuplicateUrlParam)) && r.StartLine == r.EndLine {
					if q1 := strings.Index(rd.Message, "'"); q1 >= 0 {
						if q2 := strings.Index(rd.Message[q1+1:], "'"); q2 >= 0 {
							name := rd.Message[q1+1 : q1+1+q2]
							if got := lines[r.StartLine][r.StartCol:r.EndCol]; got != "{"+name+"}" {
								fmt.Printf("VERIF-FAIL: class=C18-url-parameter-range-elsewhere diagnostic %q about URL parameter %q covers %q in %s\n", rd.Code, name, got, rd.FilePath)
								failed = true
							}
						}
					}
				}
			}
			for _, c := range d.Children {
				if c != nil {
					walk(c)
				}
			}
		}
		for i := range diags {
			walk(&diags[i])
		}
	}
	fmt.Printf("VERIF-CASES: %d (diagnostics of the fixture project and the corpus, warnings included)\n", n)
	fmt.Println("VERIF-DONE")
	if failed {
		t.Fail()
	}
}

// C20: single-field corruptions of the configuration are rejected up front, naming the field, and nothing is
// written; accepted permission strings are honoured literally.
func TestVerifC20Config(t *testing.T) {
	type mut struct {
		name   string
		apply  func(cfg map[string]any)
		reject string // "" = accepted; otherwise a (case-insensitive) fragment of the field name the message must carry
		mode   os.FileMode
	}
	rc := func(cfg map[string]any) map[string]any { return cfg["routesConfig"].(map[string]any) }
	oc := func(cfg map[string]any) map[string]any { return cfg["openapiGeneratorConfig"].(map[string]any) }
	scheme0 := func(cfg map[string]any) map[string]any { return oc(cfg)["securitySchemes"].([]any)[0].(map[string]any) }
	muts := []mut{
		{"baseline", func(cfg map[string]any) {}, "", 0o644},
		{"perms-0600", func(cfg map[string]any) { rc(cfg)["outputFilePerms"] = "0600" }, "", 0o600},
		{"perms-640", func(cfg map[string]any) { rc(cfg)["outputFilePerms"] = "640" }, "", 0o640},
		{"perms-empty", func(cfg map[string]any) { rc(cfg)["outputFilePerms"] = "" }, "", 0o644},
		{"perms-4755", func(cfg map[string]any) { rc(cfg)["outputFilePerms"] = "4755" }, "outputfileperms", 0},
		{"perms-999", func(cfg map[string]any) { rc(cfg)["outputFilePerms"] = "999" }, "outputfileperms", 0},
		{"perms-abc", func(cfg map[string]any) { rc(cfg)["outputFilePerms"] = "abc" }, "outputfileperms", 0},
		{"perms-07777", func(cfg map[string]any) { rc(cfg)["outputFilePerms"] = "07777" }, "outputfileperms", 0},
		{"engine-unknown", func(cfg map[string]any) { rc(cfg)["engine"] = "express" }, "engine", 0},
		{"engine-missing", func(cfg map[string]any) { delete(rc(cfg), "engine") }, "engine", 0},
		{"routes-output-missing", func(cfg map[string]any) { delete(rc(cfg), "outputPath") }, "outputpath", 0},
		{"openapi-version-unknown", func(cfg map[string]any) { oc(cfg)["openapi"] = "2.0" }, "openapi", 0},
		{"baseurl-malformed", func(cfg map[string]any) { oc(cfg)["baseUrl"] = "not a url" }, "baseurl", 0},
		{"baseurl-path-only", func(cfg map[string]any) { oc(cfg)["baseUrl"] = "/api/v1" }, "baseurl", 0},
		{"baseurl-no-host", func(cfg map[string]any) { oc(cfg)["baseUrl"] = "http://" }, "baseurl", 0},
		{"scheme-openid-url-malformed", func(cfg map[string]any) { scheme0(cfg)["openIdConnectUrl"] = "/.well-known" }, "openidconnecturl", 0},
		{"info-title-missing", func(cfg map[string]any) { delete(oc(cfg)["info"].(map[string]any), "title") }, "title", 0},
		{"info-version-missing", func(cfg map[string]any) { delete(oc(cfg)["info"].(map[string]any), "version") }, "version", 0},
		{"contact-email-malformed", func(cfg map[string]any) {
			oc(cfg)["info"].(map[string]any)["contact"] = map[string]any{"name": "n", "email": "nope", "url": "http://example.com"}
		}, "email", 0},
		{"scheme-type-unknown", func(cfg map[string]any) { scheme0(cfg)["type"] = "weird" }, "type", 0},
		{"scheme-in-unknown", func(cfg map[string]any) { scheme0(cfg)["in"] = "body" }, "in", 0},
		{"scheme-name-missing", func(cfg map[string]any) { delete(scheme0(cfg), "name") }, "name", 0},
		{"scheme-name-twice", func(cfg map[string]any) {
			l := oc(cfg)["securitySchemes"].([]any)
			l[1].(map[string]any)["name"] = l[0].(map[string]any)["name"]
		}, "securityschemes", 0},
		{"spec-output-missing", func(cfg map[string]any) { delete(oc(cfg)["specGeneratorConfig"].(map[string]any), "outputPath") }, "outputpath", 0},
	}
	failed := false
	for _, m := range muts {
		dir := t.TempDir()
		r, s, err := genInto(t, dir, m.apply)
		switch {
		case m.reject == "" && err != nil:
			fmt.Printf("VERIF-FAIL: class=C20-valid-config-rejected-%s %v\n", m.name, firstLine(err))
			failed = true
		case m.reject == "" && err == nil:
			st, serr := os.Stat(filepath.Join(dir, "routes.go"))
			if serr != nil || st.Mode().Perm() != m.mode {
				got := os.FileMode(0)
				if st != nil {
					got = st.Mode().Perm()
				}
				fmt.Printf("VERIF-FAIL: class=C20-permissions-not-honoured-%s routes file mode %o, configured %o\n", m.name, got, m.mode)
				failed = true
			}
		case m.reject != "" && err == nil:
			fmt.Printf("VERIF-FAIL: class=C20-corrupted-config-accepted-%s the configuration violates a declared constraint but the command succeeded\n", m.name)
			failed = true
		case m.reject != "":
			if len(r) > 0 || len(s) > 0 {
				fmt.Printf("VERIF-FAIL: class=C20-output-written-on-rejected-config-%s artefacts were written\n", m.name)
				failed = true
			}
			if !strings.Contains(strings.ToLower(err.Error()), m.reject) {
				fmt.Printf("VERIF-FAIL: class=C20-message-does-not-name-field-%s message %q does not mention %q\n", m.name, firstLine(err), m.reject)
				failed = true
			}
		}
	}
	fmt.Printf("VERIF-CASES: %d (configurations: the fixture's and single-field corruptions of it)\n", len(muts))
	fmt.Println("VERIF-DONE")
	if failed {
		t.Fail()
	}
}
