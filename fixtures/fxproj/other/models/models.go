// Package models shares its name with fxproj/models: import aliases of the rendered file must still be unique
package models

// Receipt is a response type from a second package called models
type Receipt struct {
	Serial string `json:"serial" validate:"required"`
}
