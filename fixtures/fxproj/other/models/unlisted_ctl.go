package models

import "github.com/gopher-fleece/runtime"

// @Tag(Unlisted)
// @Route(/unlisted)
// @Description A controller in a package that is only loaded because a matched controller refers to one of its types:
// its file is not matched by controllerGlobs, so it must not contribute anything - in any analysis pass
type UnlistedController struct {
	runtime.GleeceController
}

// @Method(GET)
// @Route(/ping)
// @Response(200) pong
func (c *UnlistedController) Ping() (string, error) {
	return "pong", nil
}
