// Package models is dot-imported by a controller file of the fixture
package models

// Widget is a body and response type that controllers reference without a package qualifier
type Widget struct {
	// The widget's title
	Title  string `json:"title" validate:"required"`
	Colour Colour `json:"colour"`
	// two fields declared together
	W, H int
	// an enumeration over integers and one whose string values look like other scalars
	Priority Priority `json:"priority"`
	Flag     Flag     `json:"flag"`
}

// Priority is an integer enumeration
type Priority int

const (
	PriorityLow  Priority = 1
	PriorityHigh Priority = 2
)

// Flag is a string enumeration whose values read as a number, a boolean and a null
type Flag string

const (
	FlagOne  Flag = "1"
	FlagTrue Flag = "true"
	FlagNull Flag = "null"
	FlagOff  Flag = "off"
)

// Colour is an enumeration declared in a dot-imported package
type Colour string

const (
	ColourRed  Colour = "red"
	ColourBlue Colour = "blue"
)
