// Package models is dot-imported by a controller file of the fixture
package models

// Widget is a body and response type that controllers reference without a package qualifier
type Widget struct {
	// The widget's title
	Title  string `json:"title" validate:"required"`
	Colour Colour `json:"colour"`
	// two fields declared together
	W, H int
}

// Colour is an enumeration declared in a dot-imported package
type Colour string

const (
	ColourRed  Colour = "red"
	ColourBlue Colour = "blue"
)
