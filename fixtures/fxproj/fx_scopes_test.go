package fxproj

// C04 / C03 stand-in: the security checks compiled into the rendered routers are the declared ones, literally
// (scheme names and scopes as written in the annotations and the configuration - the documented side is compared
// with the same declarations by fx_spec_C04).

import (
	"fmt"
	"go/ast"
	"go/parser"
	"go/token"
	"path/filepath"
	"sort"
	"strconv"
	"strings"
	"testing"
)

func TestVerifC04RenderedScopes(t *testing.T) {
	TestRender(t)
	// what the fixture declares: every alternative of every route (hidden ones are routed too), own, inherited or default
	want := map[string]bool{}
	for _, w := range wantOps {
		for _, alt := range strings.Split(w.security, "|") {
			if alt != "" {
				want[alt] = true
			}
		}
	}
	failed := false
	for _, engine := range []string{"gin", "echo", "mux", "chi", "fiber"} {
		file := filepath.Join("out", engine, "routes.go")
		fset := token.NewFileSet()
		f, err := parser.ParseFile(fset, file, nil, 0)
		if err != nil {
			fmt.Printf("VERIF-FAIL: class=C04-rendered-unparsable-%s %v\n", engine, err)
			failed = true
			continue
		}
		got := map[string]bool{}
		ast.Inspect(f, func(n ast.Node) bool {
			cl, ok := n.(*ast.CompositeLit)
			if !ok {
				return true
			}
			name, scopes, isCheck := "", []string{}, false
			for _, el := range cl.Elts {
				kv, ok := el.(*ast.KeyValueExpr)
				if !ok {
					continue
				}
				key, _ := kv.Key.(*ast.Ident)
				if key == nil {
					continue
				}
				switch key.Name {
				case "SchemaName":
					if bl, ok := kv.Value.(*ast.BasicLit); ok {
						name, _ = strconv.Unquote(bl.Value)
						isCheck = true
					}
				case "Scopes":
					if sl, ok := kv.Value.(*ast.CompositeLit); ok {
						for _, se := range sl.Elts {
							if bl, ok := se.(*ast.BasicLit); ok {
								v, _ := strconv.Unquote(bl.Value)
								scopes = append(scopes, v)
							}
						}
					}
				}
			}
			if isCheck {
				sort.Strings(scopes)
				got[name+"["+strings.Join(scopes, ",")+"]"] = true
			}
			return true
		})
		var gs, ws []string
		for k := range got {
			gs = append(gs, k)
		}
		for k := range want {
			ws = append(ws, k)
		}
		sort.Strings(gs)
		sort.Strings(ws)
		if fmt.Sprint(gs) != fmt.Sprint(ws) {
			fmt.Printf("VERIF-FAIL: class=C04-rendered-security-differs-%s the %s router enforces %v, the annotations and configuration declare %v\n", engine, engine, gs, ws)
			failed = true
		}
	}
	fmt.Println("VERIF-CASES: 5 (rendered routers: the set of enforced scheme/scopes alternatives against the declared ones)")
	fmt.Println("VERIF-DONE")
	if failed {
		t.Fail()
	}
}
