package fxproj

// C08 stand-in: the closedness of an emitted OpenAPI document, checked on the JSON bytes without any OpenAPI library
// (the property's point is what the libraries gleece itself calls do not check).

import (
	"encoding/json"
	"fmt"
	"math"
	"os"
	"path/filepath"
	"regexp"
	"sort"
	"strings"
	"testing"
)

var templateVar = regexp.MustCompile(`\{([^{}/]*)\}`)

// jsonKindOf names the JSON type of a decoded value the way OpenAPI schemas do
func jsonKindOf(v any) string {
	switch x := v.(type) {
	case nil:
		return "null"
	case bool:
		return "boolean"
	case string:
		return "string"
	case float64:
		if x == math.Trunc(x) {
			return "integer"
		}
		return "number"
	case []any:
		return "array"
	case map[string]any:
		return "object"
	}
	return "unknown"
}

func kindFits(declared, actual string) bool {
	return declared == actual || (declared == "number" && actual == "integer")
}

// checkClosed reports C08-* classes for one emitted document
func checkClosed(doc map[string]any, where string, report func(class, msg string)) {
	version := fmt.Sprint(doc["openapi"])
	// 1. every $ref resolves to an existing component
	var walk func(v any, path string)
	walk = func(v any, path string) {
		switch x := v.(type) {
		case map[string]any:
			if ref, ok := x["$ref"].(string); ok {
				const pfx = "#/components/"
				resolved := false
				if strings.HasPrefix(ref, pfx) {
					parts := strings.Split(strings.TrimPrefix(ref, pfx), "/")
					if len(parts) == 2 && dig(doc, "components", parts[0], parts[1]) != nil {
						resolved = true
					}
				}
				if !resolved {
					report("C08-dangling-ref", fmt.Sprintf("%s: %s refers to %q, which is not a component of the document", where, path, ref))
				}
			}
			// typed enum values
			if ev, ok := x["enum"].([]any); ok {
				var declared []string
				switch t := x["type"].(type) {
				case string:
					declared = []string{t}
				case []any:
					for _, e := range t {
						declared = append(declared, fmt.Sprint(e))
					}
				}
				if len(declared) > 0 {
					for _, e := range ev {
						k := jsonKindOf(e)
						fits := false
						for _, d := range declared {
							fits = fits || kindFits(d, k)
						}
						if !fits {
							report(fmt.Sprintf("C08-enum-value-not-of-declared-type-%s-%s-holds-%s", version, strings.Join(declared, "+"), k),
								fmt.Sprintf("%s: %s declares type %v but its enum holds the %s %v", where, path, declared, k, e))
						}
					}
				}
			}
			keys := make([]string, 0, len(x))
			for k := range x {
				keys = append(keys, k)
			}
			sort.Strings(keys)
			for _, k := range keys {
				walk(x[k], path+"/"+k)
			}
		case []any:
			for i, e := range x {
				walk(e, fmt.Sprintf("%s/%d", path, i))
			}
		}
	}
	walk(doc, "#")
	// 2. path templates and path parameters; unique parameter names per location; response descriptions
	paths, _ := doc["paths"].(map[string]any)
	for p, item := range paths {
		wantVars := map[string]int{}
		for _, m := range templateVar.FindAllStringSubmatch(p, -1) {
			wantVars[m[1]]++
		}
		im, _ := item.(map[string]any)
		for verb, op := range im {
			switch verb {
			case "get", "put", "post", "delete", "options", "head", "patch", "trace":
			default:
				continue
			}
			key := where + ": " + verb + " " + p
			seen := map[string]int{}
			pathParams := map[string]int{}
			var plist []any
			if l, ok := im["parameters"].([]any); ok {
				plist = append(plist, l...)
			}
			if l, ok := dig(op, "parameters").([]any); ok {
				plist = append(plist, l...)
			}
			for _, prm := range plist {
				if ref, ok := dig(prm, "$ref").(string); ok {
					parts := strings.Split(strings.TrimPrefix(ref, "#/components/"), "/")
					if len(parts) == 2 {
						prm = dig(doc, "components", parts[0], parts[1])
					}
				}
				name, in := fmt.Sprint(dig(prm, "name")), fmt.Sprint(dig(prm, "in"))
				seen[in+":"+name]++
				if in == "path" {
					pathParams[name]++
					if dig(prm, "required") != true {
						report("C08-path-parameter-not-required", fmt.Sprintf("%s: path parameter %q is not marked required", key, name))
					}
				}
			}
			for k, n := range seen {
				if n > 1 {
					report("C08-parameter-name-repeated", fmt.Sprintf("%s: parameter %s appears %d times", key, k, n))
				}
			}
			for v, n := range wantVars {
				if n > 1 {
					report("C08-template-variable-repeated", fmt.Sprintf("%s: {%s} appears %d times in the template", key, v, n))
				}
				if pathParams[v] != 1 {
					report("C08-template-variable-without-parameter", fmt.Sprintf("%s: {%s} has %d matching path parameters", key, v, pathParams[v]))
				}
			}
			for v := range pathParams {
				if wantVars[v] == 0 {
					report("C08-path-parameter-without-template-variable", fmt.Sprintf("%s: path parameter %q has no {%s} in the template", key, v, v))
				}
			}
			rs, _ := dig(op, "responses").(map[string]any)
			if len(rs) == 0 {
				report("C08-operation-without-responses", key+": no responses")
			}
			for code, r := range rs {
				if ref, ok := dig(r, "$ref").(string); ok {
					parts := strings.Split(strings.TrimPrefix(ref, "#/components/"), "/")
					if len(parts) == 2 {
						r = dig(doc, "components", parts[0], parts[1])
					}
				}
				if _, ok := dig(r, "description").(string); !ok {
					report("C08-response-without-description", fmt.Sprintf("%s: response %s has no description", key, code))
				}
			}
		}
	}
}

// checkConfigSections: info, servers and securitySchemes are those of the configuration document (C08's last clause),
// compared field by field with the configuration that was given to the command
func checkConfigSections(doc map[string]any, cfg map[string]any, where string, report func(class, msg string)) {
	oc, _ := cfg["openapiGeneratorConfig"].(map[string]any)
	if got, want := fmt.Sprint(doc["openapi"]), fmt.Sprint(oc["openapi"]); got != want {
		report("C08-config-version", fmt.Sprintf("%s: document declares %s, configuration says %s", where, got, want))
	}
	info, _ := oc["info"].(map[string]any)
	for _, k := range []string{"title", "description", "termsOfService", "version"} {
		want, has := info[k]
		got := dig(doc, "info", k)
		if has && fmt.Sprint(want) != "" && fmt.Sprint(got) != fmt.Sprint(want) {
			report("C08-config-info", fmt.Sprintf("%s: info.%s = %v, configuration says %v", where, k, got, want))
		}
		if !has && got != nil && fmt.Sprint(got) != "" {
			report("C08-config-info", fmt.Sprintf("%s: info.%s = %v, configuration has none", where, k, got))
		}
	}
	for _, blk := range []string{"contact", "license"} {
		want, _ := info[blk].(map[string]any)
		got, _ := dig(doc, "info", blk).(map[string]any)
		for k, wv := range want {
			if fmt.Sprint(got[k]) != fmt.Sprint(wv) {
				report("C08-config-info", fmt.Sprintf("%s: info.%s.%s = %v, configuration says %v", where, blk, k, got[k], wv))
			}
		}
		if want == nil && len(got) > 0 {
			report("C08-config-info", fmt.Sprintf("%s: info.%s = %v, configuration has none", where, blk, got))
		}
	}
	var urls []string
	if l, ok := doc["servers"].([]any); ok {
		for _, s := range l {
			urls = append(urls, fmt.Sprint(dig(s, "url")))
		}
	}
	if want := []string{fmt.Sprint(oc["baseUrl"])}; fmt.Sprint(urls) != fmt.Sprint(want) {
		report("C08-config-servers", fmt.Sprintf("%s: servers %v, configuration says %v", where, urls, want))
	}
	wantSchemes := map[string]map[string]any{}
	if l, ok := oc["securitySchemes"].([]any); ok {
		for _, s := range l {
			m := s.(map[string]any)
			wantSchemes[fmt.Sprint(m["name"])] = m
		}
	}
	gotSchemes, _ := dig(doc, "components", "securitySchemes").(map[string]any)
	for n, w := range wantSchemes {
		g, _ := gotSchemes[n].(map[string]any)
		if g == nil {
			report("C08-config-security-schemes", fmt.Sprintf("%s: configured scheme %s is missing from the document", where, n))
			continue
		}
		str := func(v any) string {
			if v == nil {
				return ""
			}
			return fmt.Sprint(v)
		}
		for cfgKey, docKey := range map[string]string{"type": "type", "in": "in", "fieldName": "name", "description": "description"} {
			if str(g[docKey]) != str(w[cfgKey]) {
				report("C08-config-security-schemes", fmt.Sprintf("%s: securitySchemes.%s.%s = %v, configuration says %v", where, n, docKey, g[docKey], w[cfgKey]))
			}
		}
		// OAuth2 flows: each configured flow with its URLs and exactly its own scopes
		wf, _ := w["flows"].(map[string]any)
		gf, _ := g["flows"].(map[string]any)
		for kind, wflow := range wf {
			wm, _ := wflow.(map[string]any)
			gm, _ := gf[kind].(map[string]any)
			if gm == nil {
				report("C08-config-security-flows", fmt.Sprintf("%s: securitySchemes.%s.flows.%s is missing", where, n, kind))
				continue
			}
			for _, k := range []string{"authorizationUrl", "tokenUrl", "refreshUrl"} {
				if str(gm[k]) != str(wm[k]) {
					report("C08-config-security-flows", fmt.Sprintf("%s: securitySchemes.%s.flows.%s.%s = %v, configuration says %v", where, n, kind, k, gm[k], wm[k]))
				}
			}
			ws, _ := wm["scopes"].(map[string]any)
			gs, _ := gm["scopes"].(map[string]any)
			if fmt.Sprint(ws) != fmt.Sprint(gs) {
				report("C08-config-security-flows", fmt.Sprintf("%s: securitySchemes.%s.flows.%s.scopes = %v, configuration says %v", where, n, kind, gs, ws))
			}
		}
		for kind := range gf {
			if wf[kind] == nil {
				report("C08-config-security-flows", fmt.Sprintf("%s: securitySchemes.%s has a flow %s the configuration does not", where, n, kind))
			}
		}
	}
	for n := range gotSchemes {
		if wantSchemes[n] == nil {
			report("C08-config-security-schemes", fmt.Sprintf("%s: the document has a scheme %s the configuration does not", where, n))
		}
	}
}

// TestVerifC08Closed: the fixture project and every project of the corpus, for both OpenAPI versions and three shapes of the
// info section; whatever file appears at the spec output path is checked, whether or not the command reported success.
func TestVerifC08Closed(t *testing.T) {
	fails := map[string]string{}
	report := func(class, msg string) {
		if _, dup := fails[class]; !dup {
			fails[class] = msg
		}
	}
	type project struct{ name, glob string }
	projects := []project{{"fixture", ""}}
	entries, _ := os.ReadDir("cases")
	for _, e := range entries {
		if e.IsDir() {
			projects = append(projects, project{"cases/" + e.Name(), "./cases/" + e.Name() + "/*.go"})
		}
	}
	infos := []map[string]any{
		nil, // the fixture's own info section
		{"title": "T", "version": "2", "license": map[string]any{"name": "MIT", "url": "https://example.com/mit"}},
		{"title": "T", "version": "2", "contact": map[string]any{"name": "N", "url": "https://example.com/c", "email": "n@example.com"}},
		{"title": "T", "version": "2", "description": "D", "contact": map[string]any{"name": "N"}, "license": map[string]any{"name": "MIT"}},
	}
	n := 0
	for _, pr := range projects {
		for _, version := range []string{"3.0.0", "3.1.0"} {
			for ii, info := range infos {
				if pr.glob != "" && ii > 0 {
					continue // info shapes are varied on the fixture project only
				}
				n++
				var used map[string]any
				dir := t.TempDir()
				_, spec, err := genInto(t, dir, func(cfg map[string]any) {
					oc := cfg["openapiGeneratorConfig"].(map[string]any)
					oc["openapi"] = version
					if info != nil {
						oc["info"] = info
					}
					if pr.glob != "" {
						cfg["commonConfig"].(map[string]any)["controllerGlobs"] = []any{pr.glob}
						exp, _ := os.ReadFile(filepath.Join(pr.name, "expect.txt"))
						if strings.TrimSpace(string(exp)) == "reject-nodefault" {
							delete(oc, "defaultSecurity")
						}
					}
					used = cfg
				})
				where := fmt.Sprintf("%s %s info#%d", pr.name, version, ii)
				if len(spec) == 0 {
					if err == nil {
						report("C08-success-without-spec", where+": the command reported success but wrote no spec")
					}
					continue
				}
				var doc map[string]any
				if jerr := json.Unmarshal(spec, &doc); jerr != nil {
					report("C08-spec-not-json", fmt.Sprintf("%s: %v", where, jerr))
					continue
				}
				// classes found on a corpus project carry its name: a finding is one input, not one kind of failure
				preport := report
				if pr.glob != "" {
					suffix := "-" + strings.TrimPrefix(pr.name, "cases/")
					preport = func(class, msg string) { report(class+suffix, msg) }
				}
				checkClosed(doc, where, preport)
				checkConfigSections(doc, used, where, preport)
			}
		}
	}
	var classes []string
	for c := range fails {
		classes = append(classes, c)
	}
	sort.Strings(classes)
	for _, c := range classes {
		fmt.Printf("VERIF-FAIL: class=%s %s\n", c, strings.ReplaceAll(fails[c], "\n", " ; "))
	}
	fmt.Printf("VERIF-CASES: %d (project x OpenAPI version x info shape)\n", n)
	fmt.Println("VERIF-DONE")
	if len(classes) > 0 {
		t.Fail()
	}
}
