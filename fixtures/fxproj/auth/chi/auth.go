package auth

import (
	"context"
	"net/http"

	"github.com/gopher-fleece/runtime"
)

var Verdict = map[string]*runtime.SecurityError{}

func GleeceRequestAuthorization(ctx context.Context, r *http.Request, check runtime.SecurityCheck) (context.Context, *runtime.SecurityError) {
	return ctx, Verdict[check.SchemaName]
}
