package auth

import (
	"context"

	"github.com/gopher-fleece/runtime"
	"github.com/labstack/echo/v4"
)

var Verdict = map[string]*runtime.SecurityError{}

func GleeceRequestAuthorization(ctx context.Context, echoCtx echo.Context, check runtime.SecurityCheck) (context.Context, *runtime.SecurityError) {
	return ctx, Verdict[check.SchemaName]
}
