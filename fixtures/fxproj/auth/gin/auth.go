package auth

import (
	"context"

	"github.com/gin-gonic/gin"
	"github.com/gopher-fleece/runtime"
)

// Verdict is set by tests: scheme name -> refusal (nil = approve)
var Verdict = map[string]*runtime.SecurityError{}

func GleeceRequestAuthorization(ctx context.Context, ginCtx *gin.Context, check runtime.SecurityCheck) (context.Context, *runtime.SecurityError) {
	return ctx, Verdict[check.SchemaName]
}
