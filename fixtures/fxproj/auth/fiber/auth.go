package auth

import (
	"context"

	"github.com/gofiber/fiber/v2"
	"github.com/gopher-fleece/runtime"
)

var Verdict = map[string]*runtime.SecurityError{}

func GleeceRequestAuthorization(ctx context.Context, fiberCtx *fiber.Ctx, check runtime.SecurityCheck) (context.Context, *runtime.SecurityError) {
	return ctx, Verdict[check.SchemaName]
}
