package fxproj

// C09 stand-in over the corpus: whenever the routes generator reports success for a corpus project, the file it wrote
// compiles (against the engine, the project's controllers and the fixture's authorization package) - for every engine.

import (
	"fmt"
	"os"
	"os/exec"
	"path/filepath"
	"strings"
	"testing"
)

func TestVerifC09CorpusCompiles(t *testing.T) {
	entries, _ := os.ReadDir("cases")
	n := 0
	failed := false
	for _, e := range entries {
		if !e.IsDir() {
			continue
		}
		name := e.Name()
		exp, _ := os.ReadFile(filepath.Join("cases", name, "expect.txt"))
		want := strings.TrimSpace(string(exp))
		if want != "accept" && want != "any" {
			continue
		}
		for _, engine := range []string{"gin", "echo", "mux", "chi", "fiber"} {
			dir := filepath.Join("out", "corpus_"+name+"_"+engine)
			os.RemoveAll(dir)
			os.MkdirAll(dir, 0o755)
			abs, _ := filepath.Abs(dir)
			r, _, err := genInto(t, abs, func(cfg map[string]any) {
				cfg["commonConfig"].(map[string]any)["controllerGlobs"] = []any{"./cases/" + name + "/*.go"}
				rc := cfg["routesConfig"].(map[string]any)
				rc["engine"] = engine
				rc["authorizationConfig"].(map[string]any)["authFileFullPackageName"] = "fxproj/auth/" + engine
			})
			os.Remove(filepath.Join(abs, "openapi.json"))
			os.Remove(filepath.Join(abs, "gleece.config.json"))
			if err != nil || len(r) == 0 {
				os.RemoveAll(dir)
				continue // refused (allowed for "any"; C10 judges "accept"): nothing to compile
			}
			n++
			cmd := exec.Command("go", "build", "./"+dir)
			cmd.Env = append(os.Environ(), "GOFLAGS=-mod=mod", "GOPROXY=off")
			if out, berr := cmd.CombinedOutput(); berr != nil {
				fmt.Printf("VERIF-FAIL: class=C09-corpus-routes-do-not-compile-%s-%s the generator reported success for cases/%s (%s) but the routes file does not compile: %s\n", name, engine, name, engine, strings.ReplaceAll(firstN(string(out), 400), "\n", " ; "))
				failed = true
			}
			os.RemoveAll(dir)
		}
	}
	fmt.Printf("VERIF-CASES: %d (routes files written for accepted corpus projects x 5 engines, each compiled)\n", n)
	fmt.Println("VERIF-DONE")
	if failed {
		t.Fail()
	}
}
