package ctl

// Accepts one query parameter of every primitive type the request parsing template has a branch for, as a value,
// through a pointer (optional) and as a slice: the rendered handlers must compile for each of them
// @Method(GET)
// @Route(/types)
// @Query(vint)
// @Query(vint8)
// @Query(vint16)
// @Query(vint32)
// @Query(vint64)
// @Query(vuint)
// @Query(vuint8)
// @Query(vuint16)
// @Query(vuint32)
// @Query(vuint64)
// @Query(vbool)
// @Query(vfloat32)
// @Query(vfloat64)
// @Query(vstring)
// @Query(puint)
// @Query(pint64)
// @Query(pfloat32)
// @Query(pbool)
// @Query(aint)
// @Query(auint)
// @Query(astring)
// @Query(afloat64)
// @Response(204) Nothing
func (c *AlphaController) AllTypes(vint int, vint8 int8, vint16 int16, vint32 int32, vint64 int64, vuint uint, vuint8 uint8, vuint16 uint16, vuint32 uint32, vuint64 uint64, vbool bool, vfloat32 float32, vfloat64 float64, vstring string, puint *uint, pint64 *int64, pfloat32 *float32, pbool *bool, aint []int, auint []uint, astring []string, afloat64 []float64) error {
	return nil
}
