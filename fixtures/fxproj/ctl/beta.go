package ctl

import "github.com/gopher-fleece/runtime"

// BetaBody is the request body of the beta controller
type BetaBody struct {
	Count int      `json:"count" validate:"gte=1"`
	Note  string   `json:"note,omitempty" validate:"oneof=sort=asc sort=desc"`
	Ratio float64  `json:"ratio" validate:"gt=0,lte=1"`
	Tags  []string `json:"tags" validate:"min=1,max=5"`
	Rank  Rank     `json:"rank" validate:"oneof=low"`
}

// A constant of the Rank enumeration declared in another file than the type itself
const RankTop Rank = "top"

// @Tag(Beta)
// @Route(/beta)
// @Description Beta controller (inherits the default security)
type BetaController struct {
	runtime.GleeceController
}

// Updates a beta
// @Method(PUT)
// @Route(/things)
// @Body(body)
func (c *BetaController) UpdateBeta(body BetaBody) (BetaBody, error) {
	return body, nil
}

// Lists betas
// @Method(GET)
// @Route(/things)
// @Query(filter)
// @Query(rank, { validate: "oneof=mid" })
func (c *BetaController) ListBeta(filter []string, rank Rank) ([]BetaBody, error) {
	return nil, nil
}

// Patches a beta (form fields)
// @Method(PATCH)
// @Route(/things/{thingId}/)
// @Path(id, { name: "thingId" })
// @FormField(label, { name: "label_text", validate: "required" })
// @FormField(weight)
// @FormField(level, { name: "lvl", validate: "oneof=low" })
// @Response(202) Accepted
// @ErrorResponse(409) Conflict
// @ErrorResponse(422) Unprocessable
func (c *BetaController) PatchBeta(id int, label string, weight *int, level *Rank) error {
	return nil
}
