package ctl

import "github.com/gopher-fleece/runtime"

// @Tag(Zeta)
// @Route(/zeta)
// @Description A controller in a file that controllerGlobs does not match: it must not contribute anything
type ZetaController struct {
	runtime.GleeceController
}

// @Method(GET)
// @Route(/ping)
// @Response(200) pong
func (c *ZetaController) Ping() (string, error) {
	return "pong", nil
}
