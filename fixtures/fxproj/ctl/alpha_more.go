package ctl

// Counts alphas (a route of AlphaController that lives in a second file)
// @Method(GET)
// @Route(/count)
// @Response(200) The count
func (c *AlphaController) CountAlpha() (int, error) {
	return 0, nil
}
