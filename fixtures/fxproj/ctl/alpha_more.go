package ctl

// Counts alphas (a route of AlphaController that lives in a second file)
// @Method(GET)
// @Route(/count)
// @Response(200) The count
// @ErrorResponse(400) Bad request
// @ErrorResponse(400) Bad request, said twice: the repetition is ignored with a warning
// @ErrorResponse(503) Unavailable: an error code that follows a repeated one must still be documented
func (c *AlphaController) CountAlpha() (int, error) {
	return 0, nil
}
