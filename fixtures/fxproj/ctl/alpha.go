package ctl

import "github.com/gopher-fleece/runtime"

// AlphaBody is the request body of the alpha controller
type AlphaBody struct {
	// The name
	Name string `json:"name" validate:"required,min=2,max=40"`
	Rank Rank   `json:"rank"`
}

// Rank is an enumeration
type Rank string

const (
	RankLow  Rank = "low"
	RankMid  Rank = "mid"
	RankHigh Rank = "high"
)

// @Tag(Alpha)
// @Route(/alpha//)
// @Security(schemeA, { scopes: ["read"] })
// @Description Alpha controller
type AlphaController struct {
	runtime.GleeceController
}

// Creates an alpha
// @Method(POST)
// @Route(/items/{id})
// @Path(id)
// @Query(limit)
// @Header(trace, { name: "x-trace" })
// @Body(body)
// @Response(201) Created
// @ErrorResponse(404) Not found
func (c *AlphaController) CreateAlpha(id string, limit *int, trace string, body AlphaBody) (AlphaBody, error) {
	return body, nil
}

// Hidden operation
// @Method(GET)
// @Route(/hidden)
// @Hidden
func (c *AlphaController) HiddenAlpha() error {
	return nil
}

// Open route with its own security
// @Method(DELETE)
// @Route(/items/{id})
// @Path(id)
// @Security(schemeB, { scopes: ["write", "admin", "orders:read&write", "tenant's"] })
// @Deprecated use something else
func (c *AlphaController) DeleteAlpha(id string) error {
	return nil
}
