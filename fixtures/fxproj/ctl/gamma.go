package ctl

import (
	"context"

	. "fxproj/models"
	om "fxproj/other/models"

	"github.com/gopher-fleece/runtime"
)

// @Tag(Gamma)
// @Route(/gamma)
// @Description A controller whose file dot-imports the package of its models and aliases a second package of the same name
type GammaController struct {
	runtime.GleeceController
}

// Files a receipt (the parameter is called body like AlphaController's, its type lives in another package)
// @Method(PUT)
// @Route(/receipts)
// @Body(body)
// @Response(200) Filed
func (c *GammaController) FileReceipt(body om.Receipt) error {
	return nil
}

// Creates a widget
// @Method(POST)
// @Route(/widgets)
// @Body(widget)
// @Response(200) The created widget
// @ErrorResponse(500) Creation failed
func (c *GammaController) CreateWidget(widget Widget) (Widget, error) {
	return widget, nil
}

// Lists widget names of a colour
// @Method(GET)
// @Route(/widgets/names)
// @Query(colour)
// @Response(200) The names
func (c *GammaController) ListWidgetNames(colour Colour) ([]string, error) {
	return []string{string(colour)}, nil
}

// Searches widgets (three parameters declared together, then one more: documented in signature order)
// @Method(GET)
// @Route(/widgets/search)
// @Query(tenant)
// @Query(region)
// @Query(zone)
// @Header(limit, { name: "x-limit" })
// @Response(200) The names
func (c *GammaController) SearchWidgets(tenant, region, zone string, limit int) ([]string, error) {
	return nil, nil
}

// Issues a receipt
// @Method(POST)
// @Route(/receipts/{serial})
// @Path(serial)
// @Response(201) The receipt
// @ErrorResponse(201) Already issued
func (c *GammaController) IssueReceipt(serial string) (om.Receipt, error) {
	return om.Receipt{Serial: serial}, nil
}

type DeltaController struct {
	runtime.GleeceController
}

// Liveness probe of a controller that carries no documentation comment at all: no tag, no route prefix
// @Method(GET)
// @Route(/healthz)
// @Query(verbose)
func (c *DeltaController) Healthz(verbose bool, ctx context.Context) error {
	return nil
}
