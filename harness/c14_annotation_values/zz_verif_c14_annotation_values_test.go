package metadata

// Bounded stand-in for C14 (injected by gvc with go test -overlay; never part of the repository).
// reflect-based property casting is outside the verifier's reach: every consumer of a typed annotation property is
// run on JSON5 values of every kind and must answer with a value or an error, never with a panic.

import (
	"fmt"
	"testing"

	"github.com/gopher-fleece/gleece/v2/core/annotations"
	"github.com/gopher-fleece/gleece/v2/definitions"
	"github.com/gopher-fleece/gleece/v2/gast"
)

func TestVerifC14AnnotationValues(t *testing.T) {
	values := []string{
		`null`, `true`, `false`, `0`, `-1.5`, `""`, `"x"`, `[]`, `[null]`, `["a", null]`, `["a", 5]`, `[["a"]]`, `{}`, `{ a: null }`,
	}
	lines := []struct{ class, format string }{
		{"security-scopes", `// @Security(s, { scopes: %s })`},
		{"param-name", `// @Query(p, { name: %s })`},
		{"param-validate", `// @Query(p, { validate: %s })`},
		{"header-name", `// @Header(p, { name: %s })`},
		{"template-context", `// @TemplateContext(k, { v: %s })`},
		{"hidden-and-deprecated", `// @Deprecated(p, { x: %s })`},
	}
	fails := map[string]string{}
	cases := 0
	for _, l := range lines {
		for _, v := range values {
			text := fmt.Sprintf(l.format, v)
			cases++
			func() {
				defer func() {
					if r := recover(); r != nil {
						if _, dup := fails["C14-panic-"+l.class]; !dup {
							fails["C14-panic-"+l.class] = fmt.Sprintf("annotation line %q: %v", text, r)
						}
					}
				}()
				block := gast.CommentBlock{FileName: "f.go", Comments: []gast.CommentNode{
					{Text: text, Position: gast.CommentPosition{EndCol: len(text)}},
					{Text: "// @Response(200) ok", Index: 1, Position: gast.CommentPosition{StartLine: 1, EndLine: 1, EndCol: 20}},
				}}
				holder, err := annotations.NewAnnotationHolder(block, annotations.CommentSourceRoute)
				if err != nil {
					return // malformed JSON5 is reported as an error: fine
				}
				GetSecurityFromContext(&holder)
				GetParameterSchemaName("p", &holder)
				GetParamValidator("p", &holder, definitions.PassedInQuery, false)
				GetParamValidator("p", &holder, definitions.PassedInHeader, true)
				GetParamPassedIn("p", &holder)
				GetMethodHideOpts(&holder)
				GetDeprecationOpts(&holder)
				GetTemplateContextMetadata(&holder)
				GetResponseStatusCodeAndDescription(&holder, true)
				GetRouteSecurityWithInheritance(&holder, nil)
			}()
		}
	}
	fmt.Printf("VERIF-CASES: %d (annotation lines x consumers)\n", cases)
	for class, msg := range fails {
		fmt.Printf("VERIF-FAIL: class=%s %s\n", class, msg)
	}
	fmt.Println("VERIF-DONE")
	if len(fails) > 0 {
		t.Fail()
	}
}
