package routes

// Bounded stand-in for C09's write gate (injected by gvc with go test -overlay; never part of the repository).

import (
	"fmt"
	"go/parser"
	"go/token"
	"os"
	"path/filepath"
	"testing"

	"github.com/gopher-fleece/gleece/v2/core/pipeline"
	"github.com/gopher-fleece/gleece/v2/definitions"
)

func TestVerifC09WriteGate(t *testing.T) {
	engines := []definitions.RoutingEngineType{"gin", "echo", "mux", "chi", "fiber"}
	names := []string{"routes", "", "api_v1", "my-pkg", "1abc", "func"}
	cases := 0
	failed := false
	for _, e := range engines {
		for _, n := range names {
			cases++
			dir := t.TempDir()
			out := filepath.Join(dir, "gen", "routes.go")
			cfg := &definitions.GleeceConfig{}
			cfg.RoutesConfig.Engine = e
			cfg.RoutesConfig.PackageName = n
			cfg.RoutesConfig.OutputPath = out
			cfg.RoutesConfig.SkipGenerateDateComment = true
			cfg.RoutesConfig.AuthorizationConfig.AuthFileFullPackageName = "example.com/auth"
			err := GenerateRoutes(cfg, pipeline.GleeceFlattenedMetadata{})
			data, readErr := os.ReadFile(out)
			if err == nil {
				if readErr != nil {
					fmt.Printf("VERIF-FAIL: class=success-without-file engine=%s package=%q\n", e, n)
					failed = true
					continue
				}
				if _, perr := parser.ParseFile(token.NewFileSet(), out, data, parser.AllErrors); perr != nil {
					fmt.Printf("VERIF-FAIL: class=success-with-invalid-go engine=%s package=%q: %v\n", e, n, perr)
					failed = true
				}
			} else if readErr == nil {
				fmt.Printf("VERIF-FAIL: class=file-written-on-failure engine=%s package=%q\n", e, n)
				failed = true
			}
		}
	}
	fmt.Printf("VERIF-CASES: %d exhaustive (engines x package names)\n", cases)
	fmt.Println("VERIF-DONE")
	if failed {
		t.Fail()
	}
}
