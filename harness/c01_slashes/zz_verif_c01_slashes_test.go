package common

// Bounded stand-in for C01 (injected by gvc with go test -overlay; never part of the repository).
// RemoveDuplicateSlash is the normaliser both emitters use for the path an operation is documented under
// (controller route + method route); it rests on the regular-expression engine, which is third-party code outside
// the verifier's reach. The contracts treat it as an uninterpreted function of its argument; this test decides what
// that function is: every maximal run of slashes becomes one slash and nothing else changes.

import (
	"fmt"
	"strings"
	"testing"
)

func TestVerifC01Slashes(t *testing.T) {
	alphabet := []byte{'/', 'a', '{'}
	n := 0
	failed := false
	var gen func(prefix []byte, left int)
	gen = func(prefix []byte, left int) {
		if failed {
			return
		}
		in := string(prefix)
		// the oracle, written without regular expressions
		var want strings.Builder
		prev := byte(0)
		for i := 0; i < len(in); i++ {
			if in[i] == '/' && prev == '/' {
				continue
			}
			want.WriteByte(in[i])
			prev = in[i]
		}
		n++
		if got := RemoveDuplicateSlash(in); got != want.String() {
			fmt.Printf("VERIF-FAIL: class=C01-slash-run-not-collapsed RemoveDuplicateSlash(%q) = %q, want %q\n", in, got, want.String())
			failed = true
			return
		}
		if left == 0 {
			return
		}
		for _, c := range alphabet {
			gen(append(append([]byte{}, prefix...), c), left-1)
		}
	}
	gen(nil, 9)
	fmt.Printf("VERIF-CASES: %d (all strings over {'/', 'a', '{'} up to length 9)\n", n)
	fmt.Println("VERIF-DONE")
	if failed {
		t.Fail()
	}
}
