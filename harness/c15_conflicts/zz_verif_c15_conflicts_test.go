package paths

// Bounded stand-in for C15 (injected by gvc with go test -overlay; never part of the repository).
// Exhaustive comparison of FindConflicts with the statement's overlap relation on small route lists.

import (
	"fmt"
	"os"
	"sort"
	"strings"
	"testing"

	"github.com/gopher-fleece/gleece/v2/core/metadata"
)

type vRoute struct {
	segs []string
	verb string
	// spelling of the same path: 0 = normal form, 1 = trailing slash, 2 = doubled slash before the last segment,
	// 3 = three slashes before the last segment
	spelling int
}

func (r vRoute) path() string {
	switch {
	case r.spelling == 1 && len(r.segs) > 0:
		return "/" + strings.Join(r.segs, "/") + "/"
	case r.spelling == 2 && len(r.segs) > 0:
		return "/" + strings.Join(r.segs[:len(r.segs)-1], "/") + "//" + r.segs[len(r.segs)-1]
	case r.spelling == 3 && len(r.segs) > 0:
		return "/" + strings.Join(r.segs[:len(r.segs)-1], "/") + "///" + r.segs[len(r.segs)-1]
	}
	return "/" + strings.Join(r.segs, "/")
}

func vIsParam(s string) bool { return strings.HasPrefix(s, "{") && strings.HasSuffix(s, "}") }

// the statement's definition: equal segment counts and, position by position, equal literals or at least one parameter
func vOverlap(a, b vRoute) bool {
	if a.verb != b.verb || len(a.segs) != len(b.segs) {
		return false
	}
	for i := range a.segs {
		if a.segs[i] != b.segs[i] && !vIsParam(a.segs[i]) && !vIsParam(b.segs[i]) {
			return false
		}
	}
	return true
}

func vUniverse() []vRoute {
	alpha := []string{"a", "b", "{x}", "{y}"}
	var out []vRoute
	for _, verb := range []string{"GET", "POST"} {
		out = append(out, vRoute{nil, verb, 0})
		for _, s1 := range alpha {
			out = append(out, vRoute{[]string{s1}, verb, 0})
			for _, s2 := range alpha {
				out = append(out, vRoute{[]string{s1, s2}, verb, 0})
			}
		}
	}
	// the same paths written with a trailing or a doubled slash (GET only, to keep the universe small): the overlap
	// relation is about segments, not about spelling
	for _, s1 := range alpha {
		out = append(out, vRoute{[]string{s1}, "GET", 1})
		for _, s2 := range []string{"a", "{x}"} {
			out = append(out, vRoute{[]string{s1, s2}, "GET", 1}, vRoute{[]string{s1, s2}, "GET", 2}, vRoute{[]string{s1, s2}, "GET", 3})
		}
	}
	return out
}

func TestVerifC15Conflicts(t *testing.T) {
	maxLen := 3
	if os.Getenv("VERIF_TIER") == "thorough" {
		maxLen = 4
	}
	uni := vUniverse()
	fails := map[string]string{}
	var cases int64
	idx := make([]int, 0, maxLen)
	// one receiver object per list position so that entries are distinguishable by identity
	recvs := make([]*metadata.ReceiverMeta, maxLen)
	for i := range recvs {
		recvs[i] = &metadata.ReceiverMeta{}
		recvs[i].Name = fmt.Sprintf("m%d", i)
	}
	note := func(class, msg string) {
		if _, dup := fails[class]; !dup {
			fails[class] = "class=" + class + " " + msg
		}
	}
	run := func() {
		cases++
		entries := make([]RouteEntry, len(idx))
		for i, u := range idx {
			entries[i] = RouteEntry{Path: uni[u].path(), Method: uni[u].verb, Meta: RouteEntryMeta{Receiver: recvs[i]}}
		}
		desc := func() string {
			var s []string
			for _, u := range idx {
				s = append(s, uni[u].verb+" "+uni[u].path())
			}
			return "[" + strings.Join(s, ", ") + "]"
		}
		conflicts := FindConflicts(entries)
		flagged := map[int]bool{}
		for _, c := range conflicts {
			ia, ib := -1, -1
			for i := range entries {
				if c.A.Meta.Receiver == recvs[i] {
					ia = i
				}
				if c.B.Meta.Receiver == recvs[i] {
					ib = i
				}
			}
			if ia < 0 || ib < 0 {
				note("conflict-names-unknown-entry", "list "+desc())
				continue
			}
			if ia == ib {
				note("conflict-names-same-entry-twice", "list "+desc())
			}
			if !vOverlap(uni[idx[ia]], uni[idx[ib]]) {
				note("unsound-conflict", fmt.Sprintf("list %s: reported %s %s vs %s %s which do not overlap", desc(), c.A.Method, c.A.Path, c.B.Method, c.B.Path))
			}
			flagged[ia], flagged[ib] = true, true
		}
		for i := range idx {
			want := false
			for j := range idx {
				if i != j && vOverlap(uni[idx[i]], uni[idx[j]]) {
					want = true
				}
			}
			if want && !flagged[i] {
				note("overlapping-entry-not-flagged", fmt.Sprintf("list %s: entry #%d (%s %s) overlaps another same-verb entry but is named in no conflict", desc(), i, uni[idx[i]].verb, uni[idx[i]].path()))
			}
			if !want && flagged[i] {
				note("non-overlapping-entry-flagged", fmt.Sprintf("list %s: entry #%d is flagged without overlap", desc(), i))
			}
		}
	}
	var rec func()
	rec = func() {
		if len(idx) > 0 {
			run()
		}
		if len(idx) == maxLen {
			return
		}
		for u := range uni {
			idx = append(idx, u)
			rec()
			idx = idx[:len(idx)-1]
		}
	}
	rec()
	fmt.Printf("VERIF-CASES: %d exhaustive (ordered lists of length <= %d over %d entries)\n", cases, maxLen, len(uni))
	var classes []string
	for c := range fails {
		classes = append(classes, c)
	}
	sort.Strings(classes)
	for _, c := range classes {
		fmt.Printf("VERIF-FAIL: %s\n", fails[c])
	}
	fmt.Println("VERIF-DONE")
	if len(fails) > 0 {
		t.Fail()
	}
}
