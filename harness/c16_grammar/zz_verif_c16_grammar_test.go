package annotations

// Bounded stand-in for C16 (injected by gvc with go test -overlay; never part of the repository).
// The regular-expression engine is third-party code outside the verifier's reach: this test generates comment
// lines from the grammar of the property statement and compares what NewAnnotationHolder parses back with the
// parts each line was generated from.

import (
	"fmt"
	"reflect"
	"strings"
	"testing"

	"github.com/gopher-fleece/gleece/v2/gast"
	"github.com/titanous/json5"
)

type vProps struct {
	text      string
	malformed bool
}

func TestVerifC16Grammar(t *testing.T) {
	names := []string{"Query", "Method", "X1", "a_b"}
	values := []struct {
		present bool
		text    string
	}{{false, ""}, {true, "id"}, {true, "a-b"}, {true, "/x/{id}"}, {true, "two words"}, {true, "back\\slash"}}
	props := []*vProps{
		nil,
		{`{}`, false},
		{`{ name: "x" }`, false},
		{`{name:"x",validate:"required,gt=1"}`, false},
		{`{ validate: "oneof=a(1) b(2)" }`, false},
		{`{ s: "}" }`, false},
		{`{ s: "{" }`, false},
		{`{ a: { b: [1, 2] } }`, false},
		{`{ s: "é ü 日本" }`, false},
		{`{ s: "x) y" }`, false},
		{`{ a: }`, true},
		{`{ a: 1,, }`, true},
	}
	descs := []string{"", "plain text", "see {x}) more", "with (parens)", "with {braces}", "é multibyte ü", "trailing dot.", "a, comma"}
	fails := map[string]string{}
	report := func(class, msg string) {
		if _, dup := fails[class]; !dup {
			fails[class] = msg
		}
	}
	cases := 0
	for _, name := range names {
		for _, v := range values {
			for _, p := range props {
				if p != nil && !v.present {
					continue // the grammar has properties only after a value
				}
				for _, d := range descs {
					for _, sep := range []string{", ", ",", ",  "} { // (white space before the comma is not used: whether it belongs to the value is not fixed by the statement)
						if p == nil && sep != ", " {
							continue
						}
						line := "// @" + name
						if v.present {
							line += "(" + v.text
							if p != nil {
								line += sep + p.text
							}
							line += ")"
						}
						if d != "" {
							line += " " + d
						}
						cases++
						block := gast.CommentBlock{FileName: "f.go", Comments: []gast.CommentNode{
							{Text: "// leading free text", Position: gast.CommentPosition{StartLine: 1, EndLine: 1, EndCol: 20}},
							{Text: line, Index: 1, Position: gast.CommentPosition{StartLine: 2, EndLine: 2, EndCol: len(line)}},
						}}
						holder, err := NewAnnotationHolder(block, CommentSourceRoute)
						if p != nil && p.malformed {
							if err == nil {
								report("C16-malformed-json5-not-reported", fmt.Sprintf("line %q: malformed JSON5 was accepted without an error", line))
							}
							continue
						}
						if err != nil {
							class := "C16-wellformed-line-rejected"
							if strings.Contains(d, "})") && p != nil {
								// finding R11: the greedy `{.*}` group runs to the last `})` of the line
								class += "-description-contains-brace-paren"
							}
							report(class, fmt.Sprintf("line %q: %v", line, err))
							continue
						}
						attrs := holder.Attributes()
						if len(attrs) != 1 {
							report("C16-attribute-line-kept-as-free-text", fmt.Sprintf("line %q yields %d attributes (free text: %q)", line, len(attrs), holder.NonAttributeComments()))
							continue
						}
						a := attrs[0]
						if a.Name != name {
							report("C16-name", fmt.Sprintf("line %q: name %q, want %q", line, a.Name, name))
						}
						if a.Value != v.text {
							report("C16-value", fmt.Sprintf("line %q: value %q, want %q", line, a.Value, v.text))
						}
						if a.Description != d {
							report("C16-description", fmt.Sprintf("line %q: description %q, want %q", line, a.Description, d))
						}
						var want map[string]any
						if p != nil {
							if err := json5.Unmarshal([]byte(p.text), &want); err != nil {
								t.Fatalf("harness: %q is not JSON5: %v", p.text, err)
							}
						}
						if len(want) == 0 && len(a.Properties) == 0 {
							// nil and empty maps both mean "no properties"
						} else if !reflect.DeepEqual(a.Properties, want) {
							report("C16-properties", fmt.Sprintf("line %q: properties %v, want %v", line, a.Properties, want))
						}
						if got := holder.GetDescription(); got != "leading free text" && name != "Description" {
							report("C16-entity-description", fmt.Sprintf("line %q: entity description %q, want the leading free text", line, got))
						}
					}
				}
			}
		}
	}
	// lines that are not of the form: kept as free text, never attributes
	for _, line := range []string{
		"// plain text", "//@Query(x)", "// @ Query(x)", "// text @Query(x)", "// @", "// @(x)", "// @Query(x", "// email me @home",
		"/// @Query(x)", "// @Query (x) trailing", "//", "// @Query(x, {a:1)",
		"// /users/{id} is the path", "// see https://example.com/docs/", "// a/b/", "//   padded   ",
	} {
		cases++
		block := gast.CommentBlock{FileName: "f.go", Comments: []gast.CommentNode{{Text: line, Position: gast.CommentPosition{StartLine: 1, EndLine: 1, EndCol: len(line)}}}}
		holder, err := NewAnnotationHolder(block, CommentSourceRoute)
		if err != nil {
			report("C16-free-text-rejected", fmt.Sprintf("line %q: %v", line, err))
			continue
		}
		// `// @Query (x) trailing` is of the form `// @Name description`
		wantAttr := line == "// @Query (x) trailing"
		if got := len(holder.Attributes()) == 1; got != wantAttr {
			report("C16-free-text-yields-attribute", fmt.Sprintf("line %q: %d attributes", line, len(holder.Attributes())))
		}
		// free text is kept as written: the comment marker and surrounding blanks go, nothing else
		if !wantAttr && len(holder.NonAttributeComments()) == 1 {
			if got, want := holder.NonAttributeComments()[0].Value, strings.Trim(strings.TrimPrefix(line, "//"), " "); got != want {
				report("C16-free-text-altered", fmt.Sprintf("line %q: kept as %q, want %q", line, got, want))
			}
		}
		if !wantAttr && (len(holder.NonAttributeComments()) != 1 || !strings.Contains(line, strings.TrimSpace(holder.NonAttributeComments()[0].Value))) {
			report("C16-free-text-lost", fmt.Sprintf("line %q: free text %v", line, holder.NonAttributeComments()))
		}
	}
	fmt.Printf("VERIF-CASES: %d (generated annotation lines)\n", cases)
	for class, msg := range fails {
		fmt.Printf("VERIF-FAIL: class=%s %s\n", class, msg)
	}
	fmt.Println("VERIF-DONE")
	if len(fails) > 0 {
		t.Fail()
	}
}
