package symboldg

// Bounded stand-in for C17 (injected by gvc with go test -overlay; never part of the repository).
// Enumerates all operation sequences up to a bound against a plain set model and compares every view.

import (
	"fmt"
	"os"
	"sort"
	"testing"

	"github.com/gopher-fleece/gleece/v2/graphs"
)

type vEdge struct {
	from, to int
	kind     SymbolEdgeKind
}

type vOp struct {
	op       int // 0 addNode 1 AddEdge 2 RemoveEdge(kind) 3 RemoveEdge(nil) 4 RemoveNode
	a, b     int
	kind     SymbolEdgeKind
}

func (o vOp) String() string {
	names := []string{"addNode", "AddEdge", "RemoveEdge", "RemoveEdgeAllKinds", "RemoveNode"}
	switch o.op {
	case 0, 4:
		return fmt.Sprintf("%s(%c)", names[o.op], 'a'+o.a)
	case 3:
		return fmt.Sprintf("%s(%c,%c)", names[o.op], 'a'+o.a, 'a'+o.b)
	}
	return fmt.Sprintf("%s(%c,%c,%s)", names[o.op], 'a'+o.a, 'a'+o.b, o.kind)
}

var vKeys = []graphs.SymbolKey{
	{Name: "a", Position: 1, FileId: "f|v1", FilePath: "f"},
	{Name: "b", Position: 2, FileId: "f|v1", FilePath: "f"},
	{Name: "c", Position: 3, FileId: "g|v1", FilePath: "g"},
}

var vKinds = []SymbolEdgeKind{EdgeKindType, EdgeKindField}

func vAllOps() []vOp {
	var ops []vOp
	for a := range vKeys {
		ops = append(ops, vOp{op: 0, a: a})
	}
	for a := range vKeys {
		for b := range vKeys {
			for _, k := range vKinds {
				ops = append(ops, vOp{op: 1, a: a, b: b, kind: k})
				ops = append(ops, vOp{op: 2, a: a, b: b, kind: k})
			}
			ops = append(ops, vOp{op: 3, a: a, b: b})
		}
	}
	for a := range vKeys {
		ops = append(ops, vOp{op: 4, a: a})
	}
	return ops
}

type vModel struct {
	nodes map[int]bool
	edges map[vEdge]bool
}

func vKeyIndex(k graphs.SymbolKey) int {
	for i := range vKeys {
		if vKeys[i].BaseId() == k.BaseId() {
			return i
		}
	}
	return -1
}

// check compares all views of g with the model; returns a description of the first disagreement.
func vCheck(g *SymbolGraph, m *vModel) (string, string) {
	for i, key := range vKeys {
		if g.Exists(key) != m.nodes[i] {
			return "exists", fmt.Sprintf("Exists(%c)=%v, model %v", 'a'+i, g.Exists(key), m.nodes[i])
		}
		if (g.Get(key) != nil) != m.nodes[i] {
			return "get", fmt.Sprintf("Get(%c) nil-ness disagrees with model", 'a'+i)
		}
		// GetEdges: outgoing + incoming
		want := map[vEdge]bool{}
		for e := range m.edges {
			if e.from == i || e.to == i {
				want[e] = true
			}
		}
		got := map[vEdge]bool{}
		for _, d := range g.GetEdges(key, nil) {
			got[vEdge{vKeyIndex(d.Edge.From), vKeyIndex(d.Edge.To), d.Edge.Kind}] = true
		}
		for e := range want {
			if !got[e] {
				dir := "outgoing"
				if e.from != i {
					dir = "incoming"
				}
				return "getedges-missing-" + dir, fmt.Sprintf("GetEdges(%c) lacks %s edge %c-%s->%c present in the model", 'a'+i, dir, 'a'+e.from, e.kind, 'a'+e.to)
			}
		}
		for e := range got {
			if !want[e] {
				return "getedges-extra", fmt.Sprintf("GetEdges(%c) lists edge %c-%s->%c absent from the model", 'a'+i, 'a'+e.from, e.kind, 'a'+e.to)
			}
		}
		if !m.nodes[i] {
			continue
		}
		node := g.Get(key)
		// children: one entry per edge whose target exists
		var wantC, gotC []string
		for e := range m.edges {
			if e.from == i && m.nodes[e.to] {
				wantC = append(wantC, string(rune('a'+e.to)))
			}
		}
		for _, c := range g.Children(node, nil) {
			gotC = append(gotC, string(rune('a'+vKeyIndex(c.Id))))
		}
		sort.Strings(wantC)
		sort.Strings(gotC)
		if fmt.Sprint(wantC) != fmt.Sprint(gotC) {
			return "children", fmt.Sprintf("Children(%c)=%v, model %v", 'a'+i, gotC, wantC)
		}
		var wantP, gotP []string
		for e := range m.edges {
			if e.to == i && m.nodes[e.from] {
				wantP = append(wantP, string(rune('a'+e.from)))
			}
		}
		for _, p := range g.Parents(node, nil) {
			gotP = append(gotP, string(rune('a'+vKeyIndex(p.Id))))
		}
		sort.Strings(wantP)
		sort.Strings(gotP)
		if fmt.Sprint(wantP) != fmt.Sprint(gotP) {
			return "parents", fmt.Sprintf("Parents(%c)=%v, model %v", 'a'+i, gotP, wantP)
		}
		// descendants: reachable set through existing nodes
		reach := map[int]bool{}
		var walk func(int)
		walk = func(n int) {
			for e := range m.edges {
				if e.from == n && m.nodes[e.to] && !reach[e.to] {
					reach[e.to] = true
					walk(e.to)
				}
			}
		}
		walk(i)
		gotD := map[int]bool{}
		for _, d := range g.Descendants(node, nil) {
			gotD[vKeyIndex(d.Id)] = true
		}
		if fmt.Sprint(reach) != fmt.Sprint(gotD) {
			return "descendants", fmt.Sprintf("Descendants(%c)=%v, model %v", 'a'+i, gotD, reach)
		}
	}
	return "", ""
}

func vApply(g *SymbolGraph, m *vModel, o vOp) (string, string) {
	switch o.op {
	case 0:
		if !m.nodes[o.a] { // re-adding an existing node must change nothing: exercised through the guard below
			g.addNode(&SymbolNode{Id: vKeys[o.a]})
			m.nodes[o.a] = true
		} else {
			g.addNode(g.Get(vKeys[o.a]))
		}
	case 1:
		g.AddEdge(vKeys[o.a], vKeys[o.b], o.kind, nil)
		m.edges[vEdge{o.a, o.b, o.kind}] = true
	case 2:
		k := o.kind
		g.RemoveEdge(vKeys[o.a], vKeys[o.b], &k)
		delete(m.edges, vEdge{o.a, o.b, o.kind})
	case 3:
		g.RemoveEdge(vKeys[o.a], vKeys[o.b], nil)
		for _, k := range vKinds {
			delete(m.edges, vEdge{o.a, o.b, k})
		}
	case 4:
		if !m.nodes[o.a] {
			g.RemoveNode(vKeys[o.a])
			return "", ""
		}
		// dependants (transitively) before the removal
		dep := map[int]bool{}
		var up func(int)
		up = func(n int) {
			for e := range m.edges {
				if e.to == n && !dep[e.from] {
					dep[e.from] = true
					up(e.from)
				}
			}
		}
		up(o.a)
		g.RemoveNode(vKeys[o.a])
		if g.Exists(vKeys[o.a]) {
			return "removenode-still-there", fmt.Sprintf("RemoveNode(%c) left the node in place", 'a'+o.a)
		}
		for i := range vKeys {
			if m.nodes[i] && !g.Exists(vKeys[i]) && i != o.a {
				if !dep[i] {
					return "removenode-evicted-non-dependant", fmt.Sprintf("RemoveNode(%c) evicted %c which did not depend on it", 'a'+o.a, 'a'+i)
				}
				// an evicted dependant must have been left without a dependency on an existing node
			}
			if m.nodes[i] && !g.Exists(vKeys[i]) {
				m.nodes[i] = false
				for e := range m.edges {
					if e.from == i || e.to == i {
						delete(m.edges, e)
					}
				}
			}
		}
		// surviving direct dependants must still have a dependency on an existing node
		for i := range vKeys {
			if m.nodes[i] && dep[i] {
				has := false
				for e := range m.edges {
					if e.from == i && m.nodes[e.to] {
						has = true
					}
				}
				direct := false
				_ = direct
				if !has {
					// only direct dependants are examined by the cascade
					return "removenode-orphan-kept", fmt.Sprintf("RemoveNode(%c) kept dependant %c although it has no remaining dependency", 'a'+o.a, 'a'+i)
				}
			}
		}
	}
	return "", ""
}

func TestVerifC17Histories(t *testing.T) {
	maxLen := 3
	if os.Getenv("VERIF_TIER") == "thorough" {
		maxLen = 4
	}
	ops := vAllOps()
	var cases int64
	fails := map[string]string{}
	seq := make([]int, 0, maxLen)
	var rec func()
	run := func() {
		cases++
		gv := NewSymbolGraph()
		g := &gv
		m := &vModel{nodes: map[int]bool{}, edges: map[vEdge]bool{}}
		for step, oi := range seq {
			class, msg := vApply(g, m, ops[oi])
			if class == "" {
				class, msg = vCheck(g, m)
			}
			if class != "" {
				if _, dup := fails[class]; !dup {
					hist := ""
					for _, x := range seq[:step+1] {
						hist += ops[x].String() + "; "
					}
					fails[class] = fmt.Sprintf("class=%s after %s: %s", class, hist, msg)
				}
				return
			}
		}
	}
	rec = func() {
		if len(seq) > 0 {
			run()
		}
		if len(seq) == maxLen {
			return
		}
		for i := range ops {
			seq = append(seq, i)
			rec()
			seq = seq[:len(seq)-1]
		}
	}
	rec()
	fmt.Printf("VERIF-CASES: %d exhaustive (sequences of length <= %d over %d operations)\n", cases, maxLen, len(ops))
	var classes []string
	for c := range fails {
		classes = append(classes, c)
	}
	sort.Strings(classes)
	for _, c := range classes {
		fmt.Printf("VERIF-FAIL: %s\n", fails[c])
	}
	fmt.Println("VERIF-DONE")
	if len(fails) > 0 {
		t.Fail()
	}
}
