package symboldg

// Bounded stand-in for C17 (injected by gvc with go test -overlay; never part of the repository).
// Enumerates all operation sequences up to a bound against a plain set model and compares every view.

import (
	"fmt"
	"go/ast"
	"go/token"
	"os"
	"sort"
	"testing"

	"github.com/gopher-fleece/gleece/v2/common"
	"github.com/gopher-fleece/gleece/v2/gast"
	"github.com/gopher-fleece/gleece/v2/graphs"
)

type vEdge struct {
	from, to int
	kind     SymbolEdgeKind
}

type vOp struct {
	op   int // 0 add node (through createAndAddSymNode, as every public Add* does) 1 AddEdge 2 RemoveEdge(kind) 3 RemoveEdge(nil) 4 RemoveNode
	a, b int
	ver  int // file version for op 0
	kind SymbolEdgeKind
}

func (o vOp) String() string {
	names := []string{"addNode", "AddEdge", "RemoveEdge", "RemoveEdgeAllKinds", "RemoveNode"}
	switch o.op {
	case 0:
		return fmt.Sprintf("addNode(%c@v%d)", 'a'+o.a, o.ver+1)
	case 4:
		return fmt.Sprintf("%s(%c)", names[o.op], 'a'+o.a)
	case 3:
		return fmt.Sprintf("%s(%c,%c)", names[o.op], 'a'+o.a, 'a'+o.b)
	}
	return fmt.Sprintf("%s(%c,%c,%s)", names[o.op], 'a'+o.a, 'a'+o.b, o.kind)
}

var vIdents = []*ast.Ident{
	{Name: "a", NamePos: token.Pos(1)},
	{Name: "b", NamePos: token.Pos(2)},
	{Name: "c", NamePos: token.Pos(3)},
}

var vVersions = []*gast.FileVersion{{Path: "f", Hash: "v1"}, {Path: "f", Hash: "v2"}}

// vKeys[i] is the key of node i under the version it currently has in the model (version 1 until re-added)
var vKeys = []graphs.SymbolKey{
	graphs.NewSymbolKey(vIdents[0], vVersions[0]),
	graphs.NewSymbolKey(vIdents[1], vVersions[0]),
	graphs.NewSymbolKey(vIdents[2], vVersions[0]),
}

var vNumKeys = 3
var vKinds = []SymbolEdgeKind{EdgeKindType, EdgeKindField}

func vAllOps() []vOp {
	var ops []vOp
	for a := 0; a < vNumKeys; a++ {
		for v := range vVersions {
			ops = append(ops, vOp{op: 0, a: a, ver: v})
		}
	}
	for a := 0; a < vNumKeys; a++ {
		for b := 0; b < vNumKeys; b++ {
			for _, k := range vKinds {
				ops = append(ops, vOp{op: 1, a: a, b: b, kind: k})
				ops = append(ops, vOp{op: 2, a: a, b: b, kind: k})
			}
			ops = append(ops, vOp{op: 3, a: a, b: b})
		}
	}
	for a := 0; a < vNumKeys; a++ {
		ops = append(ops, vOp{op: 4, a: a})
	}
	return ops
}

type vModel struct {
	nodes map[int]bool
	vers  map[int]int
	edges map[vEdge]bool
	// version of the endpoint keys used when an edge was first inserted
	edgeVer map[vEdge][2]int
	// stale: some stored edge was inserted with a key of another file version than the node now has.
	// The adjacency indices are keyed by full (versioned) keys, so such histories are a known finding;
	// their classes carry the suffix -stalekey and everything else stays fully checked.
	stale bool
}

func vKeyIndex(k graphs.SymbolKey) int {
	for i := 0; i < vNumKeys; i++ {
		if vKeys[i].BaseId() == k.BaseId() {
			return i
		}
	}
	return -1
}

// check compares all views of g with the model; returns a description of the first disagreement.
func vCheck(g *SymbolGraph, m *vModel) (string, string) {
	for i, key := range vKeys[:vNumKeys] {
		if g.Exists(key) != m.nodes[i] {
			return "exists", fmt.Sprintf("Exists(%c)=%v, model %v", 'a'+i, g.Exists(key), m.nodes[i])
		}
		if (g.Get(key) != nil) != m.nodes[i] {
			return "get", fmt.Sprintf("Get(%c) nil-ness disagrees with model", 'a'+i)
		}
		// GetEdges: outgoing + incoming
		want := map[vEdge]bool{}
		for e := range m.edges {
			if e.from == i || e.to == i {
				want[e] = true
			}
		}
		got := map[vEdge]bool{}
		for _, d := range g.GetEdges(key, nil) {
			got[vEdge{vKeyIndex(d.Edge.From), vKeyIndex(d.Edge.To), d.Edge.Kind}] = true
		}
		for e := range want {
			if !got[e] {
				dir := "outgoing"
				if e.from != i {
					dir = "incoming"
				}
				return "getedges-missing-" + dir, fmt.Sprintf("GetEdges(%c) lacks %s edge %c-%s->%c present in the model", 'a'+i, dir, 'a'+e.from, e.kind, 'a'+e.to)
			}
		}
		for e := range got {
			if !want[e] {
				return "getedges-extra", fmt.Sprintf("GetEdges(%c) lists edge %c-%s->%c absent from the model", 'a'+i, 'a'+e.from, e.kind, 'a'+e.to)
			}
		}
		if !m.nodes[i] {
			continue
		}
		node := g.Get(key)
		// children: one entry per edge whose target exists
		var wantC, gotC []string
		for e := range m.edges {
			if e.from == i && m.nodes[e.to] {
				wantC = append(wantC, string(rune('a'+e.to)))
			}
		}
		for _, c := range g.Children(node, nil) {
			gotC = append(gotC, string(rune('a'+vKeyIndex(c.Id))))
		}
		sort.Strings(wantC)
		sort.Strings(gotC)
		if fmt.Sprint(wantC) != fmt.Sprint(gotC) {
			return "children", fmt.Sprintf("Children(%c)=%v, model %v", 'a'+i, gotC, wantC)
		}
		var wantP, gotP []string
		for e := range m.edges {
			if e.to == i && m.nodes[e.from] {
				wantP = append(wantP, string(rune('a'+e.from)))
			}
		}
		for _, p := range g.Parents(node, nil) {
			gotP = append(gotP, string(rune('a'+vKeyIndex(p.Id))))
		}
		sort.Strings(wantP)
		sort.Strings(gotP)
		if fmt.Sprint(wantP) != fmt.Sprint(gotP) {
			return "parents", fmt.Sprintf("Parents(%c)=%v, model %v", 'a'+i, gotP, wantP)
		}
		// descendants: reachable set through existing nodes
		reach := map[int]bool{}
		var walk func(int)
		walk = func(n int) {
			for e := range m.edges {
				if e.from == n && m.nodes[e.to] && !reach[e.to] {
					reach[e.to] = true
					walk(e.to)
				}
			}
		}
		walk(i)
		gotD := map[int]bool{}
		for _, d := range g.Descendants(node, nil) {
			gotD[vKeyIndex(d.Id)] = true
		}
		if fmt.Sprint(reach) != fmt.Sprint(gotD) {
			return "descendants", fmt.Sprintf("Descendants(%c)=%v, model %v", 'a'+i, gotD, reach)
		}
	}
	return "", ""
}

// vGone: the nodes that a removal of node r takes with it according to the statement - "exactly those dependants
// left without any remaining dependency", a fixpoint: an existing node goes when it depended on a node that goes
// and none of its dependencies is an existing node that stays. Chains only pass through nodes that are removed
// by this very operation: a key that is not a node does not hand the removal on.
func vGone(m *vModel, r int) map[int]bool {
	gone := map[int]bool{r: true}
	for changed := true; changed; {
		changed = false
		for i := 0; i < vNumKeys; i++ {
			if !m.nodes[i] || gone[i] {
				continue
			}
			lost, kept := false, false
			for e := range m.edges {
				if e.from != i {
					continue
				}
				if gone[e.to] {
					lost = true
				} else if m.nodes[e.to] {
					kept = true
				}
			}
			if lost && !kept {
				gone[i] = true
				changed = true
			}
		}
	}
	return gone
}

func vApply(g *SymbolGraph, m *vModel, o vOp) (string, string) {
	switch o.op {
	case 0:
		wasThere, oldVer := m.nodes[o.a], m.vers[o.a]
		dep := map[int]bool{}
		var goneReadd map[int]bool
		if wasThere && oldVer != o.ver {
			goneReadd = vGone(m, o.a)
			var up func(int)
			up = func(n int) {
				for e := range m.edges {
					if e.to == n && !dep[e.from] {
						dep[e.from] = true
						up(e.from)
					}
				}
			}
			up(o.a)
		}
		node, err := g.createAndAddSymNode(vIdents[o.a], common.SymKindStruct, vVersions[o.ver], nil, nil)
		if err != nil || node == nil {
			return "addnode-failed", fmt.Sprintf("adding %c failed: %v", 'a'+o.a, err)
		}
		newKey := graphs.NewSymbolKey(vIdents[o.a], vVersions[o.ver])
		if node.Id != newKey {
			return "readd-kept-stale-node", fmt.Sprintf("re-adding %c under version %d returned the node of another version", 'a'+o.a, o.ver+1)
		}
		if wasThere && oldVer != o.ver {
			// replacement: the stale node, every edge touching it and the dependants left without dependency go
			for e := range m.edges {
				if e.from == o.a || e.to == o.a {
					delete(m.edges, e)
				}
			}
			for i := 0; i < vNumKeys; i++ {
				if i != o.a && m.nodes[i] && !g.Exists(vKeys[i]) {
					if !dep[i] {
						return "readd-evicted-non-dependant", fmt.Sprintf("re-adding %c evicted %c which did not depend on it", 'a'+o.a, 'a'+i)
					}
					m.nodes[i] = false
					for e := range m.edges {
						if e.from == i || e.to == i {
							delete(m.edges, e)
						}
					}
				}
			}
			for i := 0; i < vNumKeys; i++ {
				if m.nodes[i] && dep[i] && i != o.a {
					// (a dependant must go iff the removal of the stale node reaches it through nodes that go themselves;
					// a dependency on a key that was no node to begin with is not something this operation took away)
					if goneReadd[i] {
						return "readd-orphan-kept", fmt.Sprintf("re-adding %c under a newer version kept dependant %c although it has no remaining dependency", 'a'+o.a, 'a'+i)
					}
				}
			}
		}
		m.nodes[o.a] = true
		m.vers[o.a] = o.ver
		vKeys[o.a] = newKey
		for e, ev := range m.edgeVer {
			if !m.edges[e] {
				continue
			}
			if (e.from == o.a && ev[0] != o.ver) || (e.to == o.a && ev[1] != o.ver) {
				m.stale = true
			}
		}
	case 1:
		g.AddEdge(vKeys[o.a], vKeys[o.b], o.kind, nil)
		ve := vEdge{o.a, o.b, o.kind}
		// the version of the key actually passed (vKeys follows the last version a node was added under)
		cur := func(i int) int { return m.vers[i] }
		if !m.edges[ve] {
			m.edgeVer[ve] = [2]int{cur(o.a), cur(o.b)}
		}
		m.edges[ve] = true
	case 2:
		k := o.kind
		g.RemoveEdge(vKeys[o.a], vKeys[o.b], &k)
		delete(m.edges, vEdge{o.a, o.b, o.kind})
	case 3:
		g.RemoveEdge(vKeys[o.a], vKeys[o.b], nil)
		for _, k := range vKinds {
			delete(m.edges, vEdge{o.a, o.b, k})
		}
	case 4:
		if !m.nodes[o.a] {
			g.RemoveNode(vKeys[o.a])
			return "", ""
		}
		// dependants (transitively) before the removal
		dep := map[int]bool{}
		var up func(int)
		up = func(n int) {
			for e := range m.edges {
				if e.to == n && !dep[e.from] {
					dep[e.from] = true
					up(e.from)
				}
			}
		}
		up(o.a)
		// the statement: exactly those dependants go that are left without any remaining dependency (a fixpoint)
		gone := vGone(m, o.a)
		g.RemoveNode(vKeys[o.a])
		if g.Exists(vKeys[o.a]) {
			return "removenode-still-there", fmt.Sprintf("RemoveNode(%c) left the node in place", 'a'+o.a)
		}
		for i := 0; i < vNumKeys; i++ {
			if m.nodes[i] && !g.Exists(vKeys[i]) && i != o.a {
				if !dep[i] {
					return "removenode-evicted-non-dependant", fmt.Sprintf("RemoveNode(%c) evicted %c which did not depend on it", 'a'+o.a, 'a'+i)
				}
				// an evicted dependant must have been left without a dependency on an existing node
				if !gone[i] {
					return "removenode-evicted-with-remaining-dependency", fmt.Sprintf("RemoveNode(%c) evicted dependant %c although it still depends on an existing node", 'a'+o.a, 'a'+i)
				}
			}
			if m.nodes[i] && !g.Exists(vKeys[i]) {
				m.nodes[i] = false
				for e := range m.edges {
					if e.from == i || e.to == i {
						delete(m.edges, e)
					}
				}
			}
		}
		// surviving direct dependants must still have a dependency on an existing node
		for i := 0; i < vNumKeys; i++ {
			if m.nodes[i] && dep[i] {
				if gone[i] {
					// (a dependant must go iff the removal reaches it through nodes that go themselves)
					return "removenode-orphan-kept", fmt.Sprintf("RemoveNode(%c) kept dependant %c although it has no remaining dependency", 'a'+o.a, 'a'+i)
				}
			}
		}
	}
	return "", ""
}

func TestVerifC17Histories(t *testing.T) {
	thorough := os.Getenv("VERIF_TIER") == "thorough"
	type cfg struct {
		keys, kinds, maxLen int
		populated           bool // start from a graph that already holds every node (under its first file version)
	}
	cfgs := []cfg{{3, 2, 3, false}, {2, 1, 4, false}, {3, 1, 3, true}}
	if thorough {
		cfgs = []cfg{{3, 2, 3, false}, {3, 1, 4, false}, {2, 1, 5, false}, {3, 2, 3, true}, {3, 1, 4, true}}
	}
	var cases int64
	fails := map[string]string{}
	allKinds := []SymbolEdgeKind{EdgeKindType, EdgeKindField}
	for _, c := range cfgs {
		vNumKeys = c.keys
		vKinds = allKinds[:c.kinds]
		ops := vAllOps()
		seq := make([]int, 0, c.maxLen)
		var rec func()
		run := func() {
			cases++
			gv := NewSymbolGraph()
			g := &gv
			m := &vModel{nodes: map[int]bool{}, vers: map[int]int{}, edges: map[vEdge]bool{}, edgeVer: map[vEdge][2]int{}}
			for i := range vIdents {
				vKeys[i] = graphs.NewSymbolKey(vIdents[i], vVersions[0])
			}
			if c.populated {
				for i := 0; i < vNumKeys; i++ {
					vApply(g, m, vOp{op: 0, a: i, ver: 0})
				}
			}
			for step, oi := range seq {
				class, msg := vApply(g, m, ops[oi])
				if class == "" {
					class, msg = vCheck(g, m)
				}
				if class != "" {
					if m.stale {
						class += "-stalekey"
					}
					if _, dup := fails[class]; !dup {
						hist := ""
						for _, x := range seq[:step+1] {
							hist += ops[x].String() + "; "
						}
						fails[class] = fmt.Sprintf("class=%s after %s: %s", class, hist, msg)
					}
					return
				}
			}
		}
		rec = func() {
			if len(seq) > 0 {
				run()
			}
			if len(seq) == c.maxLen {
				return
			}
			for i := range ops {
				seq = append(seq, i)
				rec()
				seq = seq[:len(seq)-1]
			}
		}
		rec()
		fmt.Printf("VERIF-CASES: %d exhaustive (sequences of length <= %d over %d operations: %d keys x 2 file versions x %d edge kinds; start populated=%v)\n", cases, c.maxLen, len(ops), c.keys, c.kinds, c.populated)
		cases = 0
	}
	var classes []string
	for c := range fails {
		classes = append(classes, c)
	}
	sort.Strings(classes)
	for _, c := range classes {
		fmt.Printf("VERIF-FAIL: %s\n", fails[c])
	}
	fmt.Println("VERIF-DONE")
	if len(fails) > 0 {
		t.Fail()
	}
}
