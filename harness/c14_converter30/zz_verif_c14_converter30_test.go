package swagen30

// Bounded stand-in for C14 (validator-tag conversion never panics); injected by gvc with go test -overlay.

import (
	"fmt"
	"testing"

	"github.com/getkin/kin-openapi/openapi3"
)

func TestVerifC14Converter30(t *testing.T) {
	rules := []string{"email", "uuid", "ip", "ipv4", "ipv6", "hostname", "date", "datetime", "gt", "gte", "lt", "lte", "min", "max", "len", "pattern",
		"minItems", "maxItems", "uniqueItems", "enum", "oneof", "required", "unknown", "", "omitempty", "dive"}
	values := []string{"=5", "=-1", "=abc", "=", "", "=1.5", "=true"}
	types := []string{"string", "int", "float64", "bool", "[]string", "map[string]int", "Custom", "time.Time", ""}
	cases := 0
	failed := map[string]bool{}
	for _, r := range rules {
		for _, v := range values {
			for _, ty := range types {
				cases++
				func() {
					defer func() {
						if rec := recover(); rec != nil {
							if !failed[r] {
								failed[r] = true
								fmt.Printf("VERIF-FAIL: class=panic-%s rule %q%s on field type %q: %v\n", r, r, v, ty, rec)
							}
						}
					}()
					BuildSchemaValidation(&openapi3.SchemaRef{Value: openapi3.NewSchema()}, r+v, ty)
				}()
			}
		}
	}
	fmt.Printf("VERIF-CASES: %d exhaustive (rule x value x type)\n", cases)
	fmt.Println("VERIF-DONE")
	if len(failed) > 0 {
		t.Fail()
	}
}
