package main

// Template gate (C03): in each engine's routes.hbs the authorization block - `authErr := {{> AuthorizationCall}}`,
// the `authErr != nil` test and its `return` - sits directly inside `{{#each Routes}}`, under no other block helper,
// and before the controller is constructed. The placement is a property of the template text, so it holds for every
// rendered handler of every project (what the block does once rendered is proved on the rendered `authorize`
// function and checked per rendered handler by the dominance stand-in). Decided syntactically: one obligation per
// engine with goal true/false.

import (
	"os"
	"path/filepath"
	"regexp"
	"strings"
)

var hbsTag = regexp.MustCompile(`\{\{\{?(~?)\s*([#/>!]?)(-?-?)\s*([A-Za-z_][\w.]*)?[^}]*\}?\}\}`)

func checkTemplateGate(p *Prog, gc GlobalCheck, repo string) *VC {
	vc := newVC(p, "template")
	vc.props = gc.Props
	for _, engine := range []string{"gin", "echo", "mux", "chi", "fiber"} {
		path := filepath.Join(repo, "generator", "templates", engine, "routes.hbs")
		b, err := os.ReadFile(path)
		why := ""
		if err != nil {
			why = "template not readable: " + err.Error()
		} else {
			why = templateGateProblem(string(b))
		}
		goal := "true"
		src := "generator/templates/" + engine + "/routes.hbs: the authorization block is unconditional inside {{#each Routes}} and precedes the controller"
		if why != "" {
			goal = "false"
			src += " — " + why
		}
		vc.oblige("closed", "gate."+engine, "true", goal, src, 0)
	}
	return vc
}

// templateGateProblem returns "" when the placement holds, otherwise what is wrong.
func templateGateProblem(text string) string {
	// strip handlebars comments
	text = regexp.MustCompile(`(?s)\{\{!--.*?--\}\}`).ReplaceAllString(text, "")
	type open struct{ name string }
	var stack []open
	inRoutes := -1 // stack depth right after {{#each Routes}}
	authPos := -1
	authDepthOK := false
	pos := 0
	for _, m := range hbsTag.FindAllStringSubmatchIndex(text, -1) {
		tag := text[m[0]:m[1]]
		kind := ""
		if m[4] >= 0 {
			kind = text[m[4]:m[5]]
		}
		name := ""
		if m[8] >= 0 {
			name = text[m[8]:m[9]]
		}
		pos = m[0]
		switch kind {
		case "#":
			stack = append(stack, open{name})
			if name == "each" && strings.Contains(tag, "Routes") && inRoutes < 0 {
				inRoutes = len(stack)
			}
		case "/":
			if len(stack) > 0 {
				stack = stack[:len(stack)-1]
			}
			if inRoutes >= 0 && len(stack) < inRoutes && authPos < 0 {
				return "{{#each Routes}} closes before any authorization call"
			}
		case ">":
			if name == "AuthorizationCall" && inRoutes >= 0 && authPos < 0 {
				authPos = pos
				authDepthOK = len(stack) == inRoutes
			}
		}
	}
	if inRoutes < 0 {
		return "no {{#each Routes}} block"
	}
	if authPos < 0 {
		return "no {{> AuthorizationCall}} inside {{#each Routes}}"
	}
	if !authDepthOK {
		return "the authorization call sits under a further block helper (it would be rendered only conditionally)"
	}
	rest := text[authPos:]
	ctl := strings.Index(rest, "controller :=")
	if ctl < 0 {
		return "no controller construction after the authorization call"
	}
	block := rest[:ctl]
	if !strings.HasPrefix(strings.TrimSpace(text[strings.LastIndex(text[:authPos], "\n")+1:authPos]), "authErr :=") {
		return "the result of the authorization call is not bound to authErr"
	}
	if hbsTag.MatchString(strings.Replace(block, "{{> AuthorizationCall}}", "", 1)) {
		for _, m := range hbsTag.FindAllStringSubmatch(strings.Replace(block, "{{> AuthorizationCall}}", "", 1), -1) {
			if m[2] == "#" || m[2] == "/" {
				return "a block helper opens or closes between the authorization call and the controller"
			}
		}
	}
	test := strings.Index(block, "if authErr != nil")
	if test < 0 {
		return "authErr is not tested before the controller is constructed"
	}
	if !strings.Contains(block[test:], "return") {
		return "the refusal branch does not return"
	}
	return ""
}
