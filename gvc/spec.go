package main

// Translation of contract expressions (Go expression syntax) into SMT terms.

import (
	"fmt"
	"go/ast"
	"go/constant"
	"go/parser"
	"go/token"
	"go/types"
	"strconv"
	"strings"
)

type TV struct {
	T  string
	Ty types.Type
	// Loc is set when the expression denotes an addressable location (used by modifies items)
}

type Env struct {
	vc      *VC
	pkg     *types.Package
	vars    map[string]TV
	heap    Heap
	old     *Env
	results []TV
	lookup  func(name string, env *Env) (TV, bool)
	top0    string // $top at function entry (for fresh())
	depth   int
	seenOf  func(env *Env, key string) string
	boxed   map[string]types.Type // parameter name -> static pointee type of the pointer boxed in that interface argument
}

type specErr struct{ msg string }

func (e specErr) Error() string { return e.msg }

func sfail(format string, a ...any) {
	panic(specErr{fmt.Sprintf(format, a...)})
}

func (env *Env) with(vars map[string]TV) *Env {
	n := *env
	n.vars = map[string]TV{}
	for k, v := range env.vars {
		n.vars[k] = v
	}
	for k, v := range vars {
		n.vars[k] = v
	}
	if env.old != nil && env.old != env {
		o := env.old.with(vars)
		n.old = o
	}
	return &n
}

var (
	tInt    = types.Typ[types.Int]
	tBool   = types.Typ[types.Bool]
	tString = types.Typ[types.String]
)

func isString(t types.Type) bool {
	b, ok := types.Unalias(t).Underlying().(*types.Basic)
	return ok && b.Info()&types.IsString != 0
}
func isInteger(t types.Type) bool {
	b, ok := types.Unalias(t).Underlying().(*types.Basic)
	return ok && b.Info()&types.IsInteger != 0
}
func isBoolean(t types.Type) bool {
	b, ok := types.Unalias(t).Underlying().(*types.Basic)
	return ok && b.Info()&types.IsBoolean != 0
}
func isUnsigned(t types.Type) bool {
	b, ok := types.Unalias(t).Underlying().(*types.Basic)
	return ok && b.Info()&types.IsUnsigned != 0
}
func isUntypedNil(t types.Type) bool {
	b, ok := t.(*types.Basic)
	return ok && b.Kind() == types.UntypedNil
}

// translate a boolean contract expression
func (env *Env) Bool(e ast.Expr) (res string, err error) {
	defer func() {
		if r := recover(); r != nil {
			if se, ok := r.(specErr); ok {
				err = se
				return
			}
			panic(r)
		}
	}()
	tv := env.expr(e)
	if !isBoolean(tv.Ty) {
		sfail("expression is not boolean (type %v)", tv.Ty)
	}
	return tv.T, nil
}

func (env *Env) Expr(e ast.Expr) (res TV, err error) {
	defer func() {
		if r := recover(); r != nil {
			if se, ok := r.(specErr); ok {
				err = se
				return
			}
			panic(r)
		}
	}()
	return env.expr(e), nil
}

func (env *Env) resolveType(src string) types.Type {
	e, err := parser.ParseExpr(src)
	if err != nil {
		sfail("bad type %q", src)
	}
	return env.typeOfExpr(e)
}

func (env *Env) typeOfExpr(e ast.Expr) types.Type {
	switch x := e.(type) {
	case *ast.Ident:
		if t := types.Universe.Lookup(x.Name); t != nil {
			if tn, ok := t.(*types.TypeName); ok {
				return tn.Type()
			}
		}
		if o := env.pkg.Scope().Lookup(x.Name); o != nil {
			if tn, ok := o.(*types.TypeName); ok {
				return tn.Type()
			}
		}
		sfail("unknown type %s", x.Name)
	case *ast.SelectorExpr:
		if id, ok := x.X.(*ast.Ident); ok {
			if p := env.findImport(id.Name); p != nil {
				if o := p.Scope().Lookup(x.Sel.Name); o != nil {
					if tn, ok := o.(*types.TypeName); ok {
						return tn.Type()
					}
				}
			}
		}
		sfail("unknown type %v", x)
	case *ast.StarExpr:
		return types.NewPointer(env.typeOfExpr(x.X))
	case *ast.IndexExpr:
		return env.instantiate(x.X, []ast.Expr{x.Index})
	case *ast.IndexListExpr:
		return env.instantiate(x.X, x.Indices)
	case *ast.ArrayType:
		if x.Len == nil {
			return types.NewSlice(env.typeOfExpr(x.Elt))
		}
	case *ast.MapType:
		return types.NewMap(env.typeOfExpr(x.Key), env.typeOfExpr(x.Value))
	case *ast.InterfaceType:
		return types.NewInterfaceType(nil, nil)
	}
	sfail("unsupported type expression")
	return nil
}

// instantiate: a generic named type applied to type arguments, e.g. orderedmap.Map[string, *v3.PathItem]
func (env *Env) instantiate(base ast.Expr, args []ast.Expr) types.Type {
	g := env.typeOfExpr(base)
	var targs []types.Type
	for _, a := range args {
		targs = append(targs, env.typeOfExpr(a))
	}
	t, err := types.Instantiate(types.NewContext(), g, targs, false)
	if err != nil {
		sfail("cannot instantiate %v: %v", g, err)
	}
	return t
}

func (env *Env) findImport(name string) *types.Package {
	if env.pkg == nil {
		return nil
	}
	for _, p := range env.pkg.Imports() {
		if p.Name() == name {
			return p
		}
	}
	// search all loaded packages by name (contract files may mention packages the code does not import)
	for _, p := range env.vc.P.pkgByName[name] {
		return p
	}
	return nil
}

func constTV(vc *VC, c *types.Const) TV {
	v := c.Val()
	t := c.Type()
	switch v.Kind() {
	case constant.String:
		if isUntyped(t) {
			t = tString
		}
		return TV{vc.lits.str(constant.StringVal(v)), t}
	case constant.Int:
		i, _ := constant.Int64Val(v)
		if isUntyped(t) {
			t = tInt
		}
		return TV{intLit(i), t}
	case constant.Bool:
		if isUntyped(t) {
			t = tBool
		}
		return TV{fmt.Sprint(constant.BoolVal(v)), t}
	}
	sfail("unsupported constant %v", c)
	return TV{}
}

func isUntyped(t types.Type) bool {
	b, ok := t.(*types.Basic)
	return ok && b.Info()&types.IsUntyped != 0
}

func (env *Env) ident(name string) TV {
	switch name {
	case "true":
		return TV{"true", tBool}
	case "false":
		return TV{"false", tBool}
	case "nil":
		return TV{"0", types.Typ[types.UntypedNil]}
	case "result":
		if len(env.results) >= 1 {
			return env.results[0]
		}
		// no function result in this context (a loop invariant): a local variable of that name, if there is one
		if v, ok := env.vars[name]; ok {
			return v
		}
		if env.lookup != nil {
			if v, ok := env.lookup(name, env); ok {
				return v
			}
		}
		sfail("no result here")
	}
	if strings.HasPrefix(name, "result") {
		if k, err := strconv.Atoi(name[6:]); err == nil {
			if k >= len(env.results) {
				sfail("no result %d", k)
			}
			return env.results[k]
		}
	}
	if v, ok := env.vars[name]; ok {
		return v
	}
	if env.lookup != nil {
		if v, ok := env.lookup(name, env); ok {
			return v
		}
	}
	if env.pkg != nil {
		if o := env.pkg.Scope().Lookup(name); o != nil {
			switch o := o.(type) {
			case *types.Const:
				return constTV(env.vc, o)
			case *types.Var:
				// package-level variable
				c := env.vc.compPseudo("G:"+strings.TrimPrefix(o.Pkg().Path(), modulePath+"/")+"."+o.Name(), env.vc.sorts.sortOf(o.Type()))
				return TV{env.vc.get(env.heap, c), o.Type()}
			}
		}
	}
	sfail("unknown identifier %q", name)
	return TV{}
}

// deref-aware struct field selection
func (env *Env) selectField(x TV, name string) TV {
	t := types.Unalias(x.Ty)
	isPtr := false
	if p, ok := t.Underlying().(*types.Pointer); ok {
		isPtr = true
		t = types.Unalias(p.Elem())
	}
	st, ok := t.Underlying().(*types.Struct)
	if !ok {
		sfail("selector .%s on non-struct %v", name, x.Ty)
	}
	for i := 0; i < st.NumFields(); i++ {
		f := st.Field(i)
		if f.Name() == name {
			if isPtr {
				c := env.vc.compField(t, i)
				return TV{sel(env.vc.get(env.heap, c), x.T), f.Type()}
			}
			return TV{env.vc.sorts.structGet(t, i, x.T), f.Type()}
		}
	}
	// promoted fields through embedded structs
	for i := 0; i < st.NumFields(); i++ {
		f := st.Field(i)
		if f.Embedded() {
			var inner TV
			if isPtr {
				c := env.vc.compField(t, i)
				inner = TV{sel(env.vc.get(env.heap, c), x.T), f.Type()}
			} else {
				inner = TV{env.vc.sorts.structGet(t, i, x.T), f.Type()}
			}
			if hasField(f.Type(), name) {
				return env.selectField(inner, name)
			}
		}
	}
	sfail("no field %s in %v", name, x.Ty)
	return TV{}
}

func hasField(t types.Type, name string) bool {
	t = types.Unalias(t)
	if p, ok := t.Underlying().(*types.Pointer); ok {
		t = p.Elem()
	}
	st, ok := t.Underlying().(*types.Struct)
	if !ok {
		return false
	}
	for i := 0; i < st.NumFields(); i++ {
		if st.Field(i).Name() == name {
			return true
		}
		if st.Field(i).Embedded() && hasField(st.Field(i).Type(), name) {
			return true
		}
	}
	return false
}

// load the whole object behind a struct pointer as a datatype value
func (env *Env) derefStruct(x TV) TV {
	p := types.Unalias(x.Ty).Underlying().(*types.Pointer)
	return TV{loadObject(env.vc, env.heap, p.Elem(), x.T), p.Elem()}
}

func loadObject(vc *VC, h Heap, t types.Type, ref string) string {
	t = types.Unalias(t)
	st := t.Underlying().(*types.Struct)
	var args []string
	for i := 0; i < st.NumFields(); i++ {
		args = append(args, sel(vc.get(h, vc.compField(t, i)), ref))
	}
	return vc.sorts.structMk(t, args)
}

func (env *Env) sliceElem(s TV, i string) TV {
	sl := types.Unalias(s.Ty).Underlying().(*types.Slice)
	c := env.vc.compElems(sl.Elem())
	return TV{sel(sel(env.vc.get(env.heap, c), "(s-base "+s.T+")"), "(sidx (s-off "+s.T+") "+i+")"), sl.Elem()}
}

func (env *Env) lenOf(x TV) string {
	t := types.Unalias(x.Ty).Underlying()
	switch u := t.(type) {
	case *types.Basic:
		if u.Info()&types.IsString != 0 {
			return "(slen " + x.T + ")"
		}
	case *types.Slice:
		return "(s-len " + x.T + ")"
	case *types.Map:
		return env.vc.mapCard(env.heap, u, x.T)
	case *types.Pointer:
		if a, ok := u.Elem().Underlying().(*types.Array); ok {
			return fmt.Sprint(a.Len())
		}
	case *types.Array:
		return fmt.Sprint(u.Len())
	}
	sfail("len of %v", x.Ty)
	return ""
}

func (vc *VC) mapCard(h Heap, m *types.Map, ref string) string {
	ks := vc.sorts.sortOf(m.Key())
	fn := q("card:" + ks)
	vc.global("uf:"+fn, fmt.Sprintf("(declare-fun %s ((Array %s Bool)) Int)\n(assert (forall ((a (Array %s Bool))) (! (>= (%s a) 0) :pattern ((%s a)))))\n(assert (forall ((a (Array %s Bool)) (k %s)) (! (=> (select a k) (> (%s a) 0)) :pattern ((select a k) (%s a)))))\n(assert (forall ((a (Array %s Bool)) (k %s)) (! (= (%s (store a k true)) (ite (select a k) (%s a) (+ (%s a) 1))) :pattern ((%s (store a k true))))))\n(assert (forall ((a (Array %s Bool)) (k %s)) (! (= (%s (store a k false)) (ite (select a k) (- (%s a) 1) (%s a))) :pattern ((%s (store a k false))))))\n(assert (= (%s ((as const (Array %s Bool)) false)) 0))",
		fn, ks, ks, fn, fn, ks, ks, fn, fn, ks, ks, fn, fn, fn, fn, ks, ks, fn, fn, fn, fn, fn, ks))
	return fmt.Sprintf("(ite (= %s 0) 0 (%s %s))", ref, fn, sel(vc.get(h, vc.compMapDom(m)), ref))
}

func (env *Env) expr(e ast.Expr) TV {
	vc := env.vc
	switch x := e.(type) {
	case *ast.ParenExpr:
		return env.expr(x.X)
	case *ast.Ident:
		return env.ident(x.Name)
	case *ast.BasicLit:
		switch x.Kind {
		case token.INT:
			v, err := strconv.ParseInt(x.Value, 0, 64)
			if err != nil {
				sfail("bad int %s", x.Value)
			}
			return TV{intLit(v), tInt}
		case token.STRING:
			s, err := strconv.Unquote(x.Value)
			if err != nil {
				sfail("bad string %s", x.Value)
			}
			return TV{vc.lits.str(s), tString}
		case token.CHAR:
			s, _, _, err := strconv.UnquoteChar(x.Value[1:len(x.Value)-1], '\'')
			if err != nil {
				sfail("bad char %s", x.Value)
			}
			return TV{intLit(int64(s)), types.Typ[types.Rune]}
		}
		sfail("unsupported literal %s", x.Value)
	case *ast.SelectorExpr:
		if id, ok := x.X.(*ast.Ident); ok {
			if _, isVar := env.vars[id.Name]; !isVar {
				if p := env.findImport(id.Name); p != nil {
					if _, shadow := env.tryIdent(id.Name); !shadow {
						o := p.Scope().Lookup(x.Sel.Name)
						switch o := o.(type) {
						case *types.Const:
							return constTV(vc, o)
						case *types.Var:
							c := vc.compPseudo("G:"+strings.TrimPrefix(o.Pkg().Path(), modulePath+"/")+"."+o.Name(), vc.sorts.sortOf(o.Type()))
							return TV{vc.get(env.heap, c), o.Type()}
						}
						sfail("unknown qualified identifier %s.%s", id.Name, x.Sel.Name)
					}
				}
			}
		}
		base := env.expr(x.X)
		return env.selectField(base, x.Sel.Name)
	case *ast.StarExpr:
		p := env.expr(x.X)
		pt, ok := types.Unalias(p.Ty).Underlying().(*types.Pointer)
		if !ok {
			sfail("deref of non-pointer %v", p.Ty)
		}
		if _, ok := pt.Elem().Underlying().(*types.Struct); ok {
			return env.derefStruct(p)
		}
		c := vc.compCell(pt.Elem())
		return TV{sel(vc.get(env.heap, c), p.T), pt.Elem()}
	case *ast.IndexExpr:
		base := env.expr(x.X)
		idx := env.expr(x.Index)
		switch u := types.Unalias(base.Ty).Underlying().(type) {
		case *types.Slice:
			return env.sliceElem(base, idx.T)
		case *types.Basic:
			if u.Info()&types.IsString != 0 {
				return TV{"(sat " + base.T + " " + idx.T + ")", types.Typ[types.Byte]}
			}
		case *types.Map:
			dom := sel(sel(vc.get(env.heap, vc.compMapDom(u)), base.T), idx.T)
			val := sel(sel(vc.get(env.heap, vc.compMapVal(u)), base.T), idx.T)
			return TV{ite(and("(not (= "+base.T+" 0))", dom), val, vc.sorts.zero(u.Elem(), vc.lits)), u.Elem()}
		case *types.Array:
			return TV{sel(base.T, idx.T), u.Elem()}
		}
		if ref, u, ok := env.mapLike(base); ok {
			// ordered map (modelled as an abstract map): m[k]
			dom := sel(sel(vc.get(env.heap, vc.compMapDom(u)), ref), idx.T)
			val := sel(sel(vc.get(env.heap, vc.compMapVal(u)), ref), idx.T)
			return TV{ite(and("(not (= "+ref+" 0))", dom), val, vc.sorts.zero(u.Elem(), vc.lits)), u.Elem()}
		}
		sfail("index of %v", base.Ty)
	case *ast.SliceExpr:
		base := env.expr(x.X)
		lo := "0"
		if x.Low != nil {
			lo = env.expr(x.Low).T
		}
		if isString(base.Ty) {
			hi := "(slen " + base.T + ")"
			if x.High != nil {
				hi = env.expr(x.High).T
			}
			return TV{fmt.Sprintf("(ssub %s %s %s)", base.T, lo, hi), base.Ty}
		}
		if _, ok := types.Unalias(base.Ty).Underlying().(*types.Slice); ok {
			hi := "(s-len " + base.T + ")"
			if x.High != nil {
				hi = env.expr(x.High).T
			}
			return TV{fmt.Sprintf("(mk-slice (s-base %s) (+ (s-off %s) %s) (- %s %s) (- (s-cap %s) %s))", base.T, base.T, lo, hi, lo, base.T, lo), base.Ty}
		}
		sfail("slice of %v", base.Ty)
	case *ast.UnaryExpr:
		v := env.expr(x.X)
		switch x.Op {
		case token.NOT:
			return TV{not(v.T), tBool}
		case token.SUB:
			return TV{"(- " + v.T + ")", v.Ty}
		case token.ADD:
			return v
		}
		sfail("unsupported unary %v", x.Op)
	case *ast.BinaryExpr:
		return env.binary(x)
	case *ast.CallExpr:
		return env.call(x)
	}
	sfail("unsupported expression %T", e)
	return TV{}
}

func (env *Env) tryIdent(name string) (tv TV, ok bool) {
	defer func() {
		if r := recover(); r != nil {
			if _, isSpec := r.(specErr); isSpec {
				ok = false
				return
			}
			panic(r)
		}
	}()
	if _, found := env.vars[name]; found {
		return env.vars[name], true
	}
	if name == "result" || (strings.HasPrefix(name, "result") && len(name) == 7 && name[6] >= '0' && name[6] <= '9') {
		return env.ident(name), true
	}
	if env.lookup != nil {
		if v, found := env.lookup(name, env); found {
			return v, true
		}
	}
	return TV{}, false
}

func (env *Env) binary(x *ast.BinaryExpr) TV {
	switch x.Op {
	case token.LAND:
		a, b := env.expr(x.X), env.expr(x.Y)
		return TV{and(a.T, b.T), tBool}
	case token.LOR:
		a, b := env.expr(x.X), env.expr(x.Y)
		return TV{or(a.T, b.T), tBool}
	}
	a, b := env.expr(x.X), env.expr(x.Y)
	ty := a.Ty
	if isUntypedNil(a.Ty) || isUntyped(a.Ty) {
		ty = b.Ty
	}
	// nil adapts to the other operand's sort
	fix := func(v TV, other types.Type) string {
		if isUntypedNil(v.Ty) {
			return env.vc.sorts.zero(other, env.vc.lits)
		}
		return v.T
	}
	at, bt := fix(a, b.Ty), fix(b, a.Ty)
	if (x.Op == token.EQL || x.Op == token.NEQ) && !isUntypedNil(a.Ty) && !isUntypedNil(b.Ty) && !isUntyped(a.Ty) && !isUntyped(b.Ty) {
		if sa, sb := env.vc.sorts.sortOf(a.Ty), env.vc.sorts.sortOf(b.Ty); sa != sb {
			sfail("mismatched operand types in comparison: %v vs %v", a.Ty, b.Ty)
		}
	}
	switch x.Op {
	case token.EQL:
		return TV{eq(at, bt), tBool}
	case token.NEQ:
		return TV{not(eq(at, bt)), tBool}
	}
	if isString(ty) {
		switch x.Op {
		case token.ADD:
			return TV{"(sconcat " + at + " " + bt + ")", ty}
		case token.LSS:
			return TV{"(slt " + at + " " + bt + ")", tBool}
		case token.GTR:
			return TV{"(slt " + bt + " " + at + ")", tBool}
		case token.LEQ:
			return TV{not("(slt " + bt + " " + at + ")"), tBool}
		case token.GEQ:
			return TV{not("(slt " + at + " " + bt + ")"), tBool}
		}
		sfail("unsupported string operator %v", x.Op)
	}
	switch x.Op {
	case token.ADD:
		return TV{"(+ " + at + " " + bt + ")", ty}
	case token.SUB:
		return TV{"(- " + at + " " + bt + ")", ty}
	case token.MUL:
		return TV{"(* " + at + " " + bt + ")", ty}
	case token.QUO:
		return TV{"(godiv " + at + " " + bt + ")", ty}
	case token.REM:
		return TV{"(gomod " + at + " " + bt + ")", ty}
	case token.LSS:
		return TV{"(< " + at + " " + bt + ")", tBool}
	case token.GTR:
		return TV{"(> " + at + " " + bt + ")", tBool}
	case token.LEQ:
		return TV{"(<= " + at + " " + bt + ")", tBool}
	case token.GEQ:
		return TV{"(>= " + at + " " + bt + ")", tBool}
	}
	sfail("unsupported operator %v", x.Op)
	return TV{}
}

func (env *Env) quant(kind string, args []ast.Expr) TV {
	// forall(i, lo, hi, P)  /  forall(x, T, P) with T a type expression
	if len(args) != 4 && len(args) != 3 {
		sfail("%s needs (i, lo, hi, P) or (x, Type, P)", kind)
	}
	id, ok := args[0].(*ast.Ident)
	if !ok {
		sfail("%s: first argument must be an identifier", kind)
	}
	env.vc.nfresh++
	bv := fmt.Sprintf("%s!q%d", id.Name, env.vc.nfresh)
	if len(args) == 4 {
		lo, hi := env.expr(args[1]), env.expr(args[2])
		inner := env.with(map[string]TV{id.Name: {bv, tInt}})
		body := inner.expr(args[3])
		rng := and("(<= "+lo.T+" "+bv+")", "(< "+bv+" "+hi.T+")")
		if kind == "forall" {
			return TV{fmt.Sprintf("(forall ((%s Int)) %s)", bv, implies(rng, body.T)), tBool}
		}
		return TV{fmt.Sprintf("(exists ((%s Int)) %s)", bv, and(rng, body.T)), tBool}
	}
	ty := env.typeOfExpr(args[1])
	inner := env.with(map[string]TV{id.Name: {bv, ty}})
	body := inner.expr(args[2])
	sort := env.vc.sorts.sortOf(ty)
	if kind == "forall" {
		return TV{fmt.Sprintf("(forall ((%s %s)) %s)", bv, sort, body.T), tBool}
	}
	return TV{fmt.Sprintf("(exists ((%s %s)) %s)", bv, sort, body.T), tBool}
}

func (env *Env) call(x *ast.CallExpr) TV {
	vc := env.vc
	var fname string
	var qual string
	switch f := x.Fun.(type) {
	case *ast.Ident:
		fname = f.Name
	case *ast.SelectorExpr:
		if id, ok := f.X.(*ast.Ident); ok {
			if _, isVar := env.tryIdent(id.Name); !isVar {
				qual = id.Name
				fname = f.Sel.Name
			}
		}
		if fname == "" {
			// method call on a value: recv.Method(args) -> pure method
			recv := env.expr(f.X)
			return env.pureMethodCall(recv, f.Sel.Name, x.Args)
		}
	default:
		sfail("unsupported call")
	}
	if qual == "" {
		switch fname {
		case "forall", "exists":
			return env.quant(fname, x.Args)
		case "implies":
			a, b := env.expr(x.Args[0]), env.expr(x.Args[1])
			return TV{implies(a.T, b.T), tBool}
		case "iff":
			a, b := env.expr(x.Args[0]), env.expr(x.Args[1])
			return TV{eq(a.T, b.T), tBool}
		case "ite":
			c, a, b := env.expr(x.Args[0]), env.expr(x.Args[1]), env.expr(x.Args[2])
			at, bt := a.T, b.T
			ty := a.Ty
			if isUntypedNil(a.Ty) {
				at = vc.sorts.zero(b.Ty, vc.lits)
				ty = b.Ty
			}
			if isUntypedNil(b.Ty) {
				bt = vc.sorts.zero(a.Ty, vc.lits)
			}
			return TV{ite(c.T, at, bt), ty}
		case "old":
			if env.old == nil {
				return env.expr(x.Args[0])
			}
			return env.old.expr(x.Args[0])
		case "len":
			return TV{env.lenOf(env.expr(x.Args[0])), tInt}
		case "cap":
			v := env.expr(x.Args[0])
			return TV{"(s-cap " + v.T + ")", tInt}
		case "indom":
			m, k := env.expr(x.Args[0]), env.expr(x.Args[1])
			ref, mt, ok := env.mapLike(m)
			if !ok {
				sfail("indom on non-map")
			}
			return TV{and("(not (= "+ref+" 0))", sel(sel(vc.get(env.heap, vc.compMapDom(mt)), ref), k.T)), tBool}
		case "fresh":
			v := env.expr(x.Args[0])
			switch types.Unalias(v.Ty).Underlying().(type) {
			case *types.Slice:
				return TV{or("(= (s-cap "+v.T+") 0)", "(>= (s-base "+v.T+") "+env.top0+")"), tBool}
			case *types.Interface:
				// (a modelled set: the set object behind the interface value)
				return TV{"(>= (i-ref " + v.T + ") " + env.top0 + ")", tBool}
			default:
				return TV{"(>= " + v.T + " " + env.top0 + ")", tBool}
			}
		case "disjoint":
			// disjoint(a, b): two slices that share no backing array (or one of them has none)
			a, b := env.expr(x.Args[0]), env.expr(x.Args[1])
			return TV{or("(= (s-cap "+a.T+") 0)", "(= (s-cap "+b.T+") 0)", not(eq("(s-base "+a.T+")", "(s-base "+b.T+")"))), tBool}
		case "allocated":
			v := env.expr(x.Args[0])
			return TV{and("(< 0 "+v.T+")", "(< "+v.T+" "+vc.get(env.heap, compTop)+")"), tBool}
		case "evcount":
			id, ok := x.Args[0].(*ast.Ident)
			if !ok {
				sfail("evcount(event)")
			}
			if vc.P.cs.Events[id.Name] == nil {
				sfail("undeclared event %s", id.Name)
			}
			return TV{vc.get(env.heap, vc.evCounter(id.Name)), tInt}
		case "evlast":
			id, ok := x.Args[0].(*ast.Ident)
			if !ok || len(x.Args) != 2 {
				sfail("evlast(event, i)")
			}
			lit, ok := x.Args[1].(*ast.BasicLit)
			if !ok {
				sfail("evlast(event, i): i must be a literal")
			}
			k, _ := strconv.Atoi(lit.Value)
			c, ty := vc.evArg(id.Name, k)
			return TV{vc.get(env.heap, c), ty}
		case "seen":
			// seen(k): key k has already been visited by the enclosing range-over-map loop
			if env.seenOf == nil {
				sfail("seen() is only available in invariants of range-over-map loops")
			}
			k := env.expr(x.Args[0])
			return TV{env.seenOf(env, k.T), tBool}
		case "isnil":
			v := env.expr(x.Args[0])
			return TV{eq(v.T, vc.sorts.zero(v.Ty, vc.lits)), tBool}
		case "iserr":
			v := env.expr(x.Args[0])
			return TV{not(eq(v.T, "nil-iface")), tBool}
		case "seqeq":
			// seqeq(s, t): same length and elementwise equal
			a, b := env.expr(x.Args[0]), env.expr(x.Args[1])
			vc.nfresh++
			bv := fmt.Sprintf("k!q%d", vc.nfresh)
			ea, eb := env.sliceElem(a, bv), env.sliceElem(b, bv)
			return TV{and(eq("(s-len "+a.T+")", "(s-len "+b.T+")"),
				fmt.Sprintf("(forall ((%s Int)) (=> (and (<= 0 %s) (< %s (s-len %s))) (= %s %s)))", bv, bv, bv, a.T, ea.T, eb.T)), tBool}
		case "sext":
			a, b := env.expr(x.Args[0]), env.expr(x.Args[1])
			return TV{"(sext " + a.T + " " + b.T + ")", tBool}
		case "dyntype":
			// dyntype(iface, T): the dynamic type of the interface value is T
			v := env.expr(x.Args[0])
			ty := env.typeOfExpr(x.Args[1])
			return TV{eq("(i-tag "+v.T+")", fmt.Sprint(vc.sorts.tagOf(ty))), tBool}
		case "string", "int":
			return env.expr(x.Args[0])
		}
		// conversion to a basic (or named basic) type: identity on the SMT level
		if len(x.Args) == 1 {
			if tn, ok := types.Universe.Lookup(fname).(*types.TypeName); ok {
				v := env.expr(x.Args[0])
				return TV{v.T, tn.Type()}
			}
			if env.pkg != nil {
				if tn, ok := env.pkg.Scope().Lookup(fname).(*types.TypeName); ok {
					if _, isBasic := tn.Type().Underlying().(*types.Basic); isBasic {
						v := env.expr(x.Args[0])
						return TV{v.T, tn.Type()}
					}
				}
			}
		}
		// spec function of this package?
		if sf := vc.P.cs.Specs[env.pkg.Path()+"."+fname]; sf != nil {
			return env.applySpec(sf, x.Args)
		}
		// pure Go function of this package?
		if fc := vc.P.cs.Funcs[env.pkg.Path()+"."+fname]; fc != nil && fc.Pure {
			return env.applyPure(fc, x.Args)
		}
		if uf := vc.P.cs.UFuncs[env.pkg.Path()+"."+fname]; uf != nil {
			return env.applyUFunc(uf, x.Args)
		}
		sfail("unknown function %s in contract", fname)
	}
	// qualified
	switch qual + "." + fname {
	case "strings.HasPrefix":
		s, p := env.expr(x.Args[0]), env.expr(x.Args[1])
		return TV{vc.hasPrefix(s.T, p.T), tBool}
	case "strings.HasSuffix":
		s, p := env.expr(x.Args[0]), env.expr(x.Args[1])
		return TV{vc.hasSuffix(s.T, p.T), tBool}
	case "strings.Contains":
		s, p := env.expr(x.Args[0]), env.expr(x.Args[1])
		return TV{vc.strContains(s.T, p.T), tBool}
	case "strings.Index":
		s, p := env.expr(x.Args[0]), env.expr(x.Args[1])
		return TV{vc.strIndex(s.T, p.T), tInt}
	}
	p := env.findImport(qual)
	if p != nil {
		if fc := vc.P.cs.Funcs[p.Path()+"."+fname]; fc != nil && fc.Pure {
			return env.applyPure(fc, x.Args)
		}
	}
	if p != nil && deterministicPkg(p.Path()+"."+fname) {
		// deterministic library function over value arguments: same uninterpreted function as at call sites
		if fo, ok := p.Scope().Lookup(fname).(*types.Func); ok {
			sig := fo.Type().(*types.Signature)
			if sig.Results().Len() >= 1 {
				var as, ts []string
				okv := true
				for _, a := range x.Args {
					v := env.expr(a)
					srt := vc.sorts.sortOf(v.Ty)
					if isUntyped(v.Ty) {
						srt = "Int"
						if isString(v.Ty) {
							srt = "Str"
						}
					}
					if srt != "Str" && srt != "Int" && srt != "Bool" {
						okv = false
					}
					as = append(as, srt)
					ts = append(ts, v.T)
				}
				rt := sig.Results().At(0).Type()
				rs := vc.sorts.sortOf(rt)
				if okv && (rs == "Str" || rs == "Int" || rs == "Bool") {
					return TV{vc.detUF(p.Path()+"."+fname, 0, as, ts, rs), rt}
				}
			}
		}
	}
	if p == nil {
		sfail("unknown package %s", qual)
	}
	if sf := vc.P.cs.Specs[p.Path()+"."+fname]; sf != nil {
		sub := *env
		sub.pkg = p
		return (&sub).applySpecIn(sf, x.Args, env)
	}
	if fc := vc.P.cs.Funcs[p.Path()+"."+fname]; fc != nil && fc.Pure {
		return env.applyPure(fc, x.Args)
	}
	if uf := vc.P.cs.UFuncs[p.Path()+"."+fname]; uf != nil {
		return env.applyUFunc(uf, x.Args)
	}
	sfail("unknown function %s.%s in contract", qual, fname)
	return TV{}
}

func (env *Env) applySpec(sf *SpecFunc, args []ast.Expr) TV {
	return env.applySpecIn(sf, args, env)
}

// applySpecIn: expand spec function body; args evaluated in argEnv, body in the spec's own package scope.
func (env *Env) applySpecIn(sf *SpecFunc, args []ast.Expr, argEnv *Env) TV {
	if len(args) != len(sf.Params) {
		sfail("spec %s: want %d args", sf.Name, len(sf.Params))
	}
	if sf.Rec {
		return env.applyRec(sf, args, argEnv)
	}
	if env.depth > 20 {
		sfail("spec %s: recursion too deep", sf.Name)
	}
	specPkg := env.vc.P.typesPkg(sf.Pkg)
	if specPkg == nil {
		sfail("spec %s: package %s not loaded", sf.Name, sf.Pkg)
	}
	body := &Env{vc: env.vc, pkg: specPkg, vars: map[string]TV{}, heap: argEnv.heap, results: argEnv.results, top0: argEnv.top0, depth: env.depth + 1}
	if argEnv.old != nil {
		o := &Env{vc: env.vc, pkg: specPkg, vars: map[string]TV{}, heap: argEnv.old.heap, top0: argEnv.top0, depth: env.depth + 1}
		body.old = o
	}
	for i, p := range sf.Params {
		v := argEnv.expr(args[i])
		pt := body.resolveType(p.Type)
		if isUntypedNil(v.Ty) {
			v = TV{env.vc.sorts.zero(pt, env.vc.lits), pt}
		}
		if isUntyped(v.Ty) {
			v.Ty = pt
		}
		v.Ty = pt
		body.vars[p.Name] = v
		if body.old != nil {
			body.old.vars[p.Name] = v
		}
	}
	r := body.expr(sf.Body)
	if sf.Result != "" {
		r.Ty = body.resolveType(sf.Result)
	}
	return r
}

func (env *Env) pureMethodCall(recv TV, name string, args []ast.Expr) TV {
	t := types.Unalias(recv.Ty)
	if p, ok := t.Underlying().(*types.Pointer); ok {
		t = types.Unalias(p.Elem())
	}
	n, ok := t.(*types.Named)
	if !ok {
		sfail("method call on unnamed type %v", recv.Ty)
	}
	key := n.Obj().Pkg().Path() + "." + n.Obj().Name() + "." + name
	fc := env.vc.P.cs.Funcs[key]
	if fc == nil || !fc.Pure {
		sfail("method %s is not a pure function under contract", key)
	}
	var argTVs []TV
	argTVs = append(argTVs, recv)
	for _, a := range args {
		argTVs = append(argTVs, env.expr(a))
	}
	return env.vc.pureApp(fc, argTVs)
}

func (env *Env) applyPure(fc *FuncContract, args []ast.Expr) TV {
	var argTVs []TV
	for _, a := range args {
		argTVs = append(argTVs, env.expr(a))
	}
	return env.vc.pureApp(fc, argTVs)
}

// ---- string helper encodings ----

func (vc *VC) litValue(term string) (string, bool) {
	if strings.HasPrefix(term, "lit!") {
		var k int
		if _, err := fmt.Sscanf(term, "lit!%d", &k); err == nil && k < len(vc.lits.order) {
			return vc.lits.order[k], true
		}
	}
	return "", false
}

func (vc *VC) hasPrefix(s, p string) string {
	if lit, ok := vc.litValue(p); ok && len(lit) <= 8 {
		cs := []string{fmt.Sprintf("(>= (slen %s) %d)", s, len(lit))}
		for i := 0; i < len(lit); i++ {
			cs = append(cs, fmt.Sprintf("(= (sat %s %d) %d)", s, i, lit[i]))
		}
		return and(cs...)
	}
	vc.global("uf:sprefix", `(declare-fun sprefix (Str Str) Bool)
(assert (forall ((s Str) (p Str)) (! (= (sprefix s p) (and (<= (slen p) (slen s)) (forall ((i Int)) (=> (and (<= 0 i) (< i (slen p))) (= (sat s i) (sat p i)))))) :pattern ((sprefix s p)))))`)
	return "(sprefix " + s + " " + p + ")"
}

func (vc *VC) hasSuffix(s, p string) string {
	if lit, ok := vc.litValue(p); ok && len(lit) <= 8 {
		cs := []string{fmt.Sprintf("(>= (slen %s) %d)", s, len(lit))}
		for i := 0; i < len(lit); i++ {
			cs = append(cs, fmt.Sprintf("(= (sat %s (+ (- (slen %s) %d) %d)) %d)", s, s, len(lit), i, lit[i]))
		}
		return and(cs...)
	}
	vc.global("uf:ssuffix", `(declare-fun ssuffix (Str Str) Bool)
(assert (forall ((s Str) (p Str)) (! (= (ssuffix s p) (and (<= (slen p) (slen s)) (forall ((i Int)) (=> (and (<= 0 i) (< i (slen p))) (= (sat s (+ (- (slen s) (slen p)) i)) (sat p i)))))) :pattern ((ssuffix s p)))))`)
	return "(ssuffix " + s + " " + p + ")"
}

func (vc *VC) strContains(s, p string) string {
	if ls, ok := vc.litValue(s); ok {
		if lp, ok2 := vc.litValue(p); ok2 {
			// both literals: decided at translation time
			return fmt.Sprint(strings.Contains(ls, lp))
		}
	}
	vc.global("uf:scontains", `(declare-fun scontains (Str Str) Bool)
(declare-fun smatchat (Str Str Int) Bool)
(assert (forall ((s Str) (p Str) (k Int)) (! (= (smatchat s p k) (and (<= 0 k) (<= (+ k (slen p)) (slen s)) (forall ((j Int)) (=> (and (<= 0 j) (< j (slen p))) (= (sat s (+ k j)) (sat p j)))))) :pattern ((smatchat s p k)))))
(assert (forall ((s Str) (p Str)) (! (= (scontains s p) (exists ((k Int)) (smatchat s p k))) :pattern ((scontains s p)))))`)
	return "(scontains " + s + " " + p + ")"
}

func (vc *VC) strIndex(s, p string) string {
	vc.strContains(s, p)
	vc.global("uf:sindex", `(declare-fun sindex (Str Str) Int)
(assert (forall ((s Str) (p Str)) (! (and (>= (sindex s p) (- 1)) (=> (>= (sindex s p) 0) (smatchat s p (sindex s p))) (=> (< (sindex s p) 0) (forall ((k Int)) (not (smatchat s p k)))) (forall ((k Int)) (=> (and (<= 0 k) (< k (sindex s p))) (not (smatchat s p k))))) :pattern ((sindex s p)))))`)
	return "(sindex " + s + " " + p + ")"
}

// strUF: deterministic uninterpreted function over value arguments
func (vc *VC) strUF(name, resSort string, args ...string) string {
	fn := q("uf:" + name)
	key := "uf:" + name
	if !vc.declared[key] {
		var as []string
		for range args {
			as = append(as, "Str")
		}
		vc.global(key, fmt.Sprintf("(declare-fun %s (%s) %s)", fn, strings.Join(as, " "), resSort))
	}
	return "(" + fn + " " + strings.Join(args, " ") + ")"
}


// ---- recursive spec functions: define-fun-rec with the heap components they read as explicit parameters ----

type recInfo struct {
	comps  []string
	ptypes []types.Type
	rtype  types.Type
	name   string
	inProg bool
}

func (env *Env) applyRec(sf *SpecFunc, args []ast.Expr, argEnv *Env) TV {
	vc := env.vc
	key := sf.Pkg + "." + sf.Name
	if vc.recs == nil {
		vc.recs = map[string]*recInfo{}
	}
	specPkg := vc.P.typesPkg(sf.Pkg)
	if specPkg == nil {
		sfail("rec %s: package %s not loaded", sf.Name, sf.Pkg)
	}
	ri := vc.recs[key]
	if ri == nil {
		ri = &recInfo{name: q("rec:" + strings.TrimPrefix(key, modulePath+"/")), inProg: true}
		vc.recs[key] = ri
		tenv := &Env{vc: vc, pkg: specPkg, vars: map[string]TV{}, heap: Heap{m: map[string]string{}}, top0: "1"}
		for _, p := range sf.Params {
			ri.ptypes = append(ri.ptypes, tenv.resolveType(p.Type))
		}
		ri.rtype = tenv.resolveType(sf.Result)
		build := func() (string, *recHeap) {
			rh := &recHeap{used: map[string]bool{}}
			body := &Env{vc: vc, pkg: specPkg, vars: map[string]TV{}, heap: Heap{m: map[string]string{}, rec: rh}, top0: "1", depth: env.depth + 1}
			body.old = body
			for i, p := range sf.Params {
				body.vars[p.Name] = TV{q("rp:" + p.Name), ri.ptypes[i]}
			}
			return body.expr(sf.Body).T, rh
		}
		// pass 1: discover the heap components read (self-calls pass the heap through)
		_, rh := build()
		ri.comps = append([]string{}, rh.order...)
		// pass 2: final text
		text, rh2 := build()
		if len(rh2.order) != len(ri.comps) {
			sfail("rec %s: unstable heap footprint", sf.Name)
		}
		var ps []string
		for _, c := range ri.comps {
			ps = append(ps, fmt.Sprintf("(%s %s)", q("hp:"+c), vc.compSort(c)))
		}
		for i, p := range sf.Params {
			ps = append(ps, fmt.Sprintf("(%s %s)", q("rp:"+p.Name), vc.sorts.sortOf(ri.ptypes[i])))
		}
		vc.global("sort:Fuel", "(declare-datatypes ((Fuel 0)) (((FZ) (FS (fpred Fuel)))))")
		var sorts, names []string
		for _, c := range ri.comps {
			sorts = append(sorts, vc.compSort(c))
			names = append(names, q("hp:"+c))
		}
		for i, p := range sf.Params {
			sorts = append(sorts, vc.sorts.sortOf(ri.ptypes[i]))
			names = append(names, q("rp:"+p.Name))
		}
		// fuel encoding (as in Dafny/Boogie): unfolding is limited by a fuel argument so that
		// quantifiers mentioning the function cannot start a matching loop.
		vc.globals = append(vc.globals, fmt.Sprintf("(declare-fun %s (Fuel %s) %s)", ri.name, strings.Join(sorts, " "), vc.sorts.sortOf(ri.rtype)))
		app := fmt.Sprintf("(%s (FS ly!f) %s)", ri.name, strings.Join(names, " "))
		vc.globals = append(vc.globals, fmt.Sprintf("(assert (forall ((ly!f Fuel) %s) (! (= %s (%s ly!f %s)) :pattern (%s))))", strings.Join(ps, " "), app, ri.name, strings.Join(names, " "), app))
		vc.globals = append(vc.globals, fmt.Sprintf("(assert (forall ((ly!f Fuel) %s) (! (= %s %s) :pattern (%s))))", strings.Join(ps, " "), app, text, app))
		ri.inProg = false
	}
	ts := []string{"(FS (FS FZ))"}
	if ri.inProg {
		// self-call inside the body: one unit of fuel less, same heap parameters
		ts[0] = "ly!f"
		for _, c := range ri.comps {
			ts = append(ts, q("hp:"+c))
		}
		if len(ri.comps) == 0 {
			// pass 1: footprint not known yet; placeholders are fine, text is discarded
		}
	} else {
		for _, c := range ri.comps {
			ts = append(ts, vc.get(argEnv.heap, c))
		}
	}
	for i, a := range args {
		v := argEnv.expr(a)
		if isUntypedNil(v.Ty) {
			v.T = vc.sorts.zero(ri.ptypes[i], vc.lits)
		}
		ts = append(ts, v.T)
	}
	return TV{"(" + ri.name + " " + strings.Join(ts, " ") + ")", ri.rtype}
}


// ---- uninterpreted specification functions and the axioms of their package ----

func (env *Env) applyUFunc(uf *UFunc, args []ast.Expr) TV {
	vc := env.vc
	pkg := vc.P.typesPkg(uf.Pkg)
	if pkg == nil {
		sfail("ufunc %s: package not loaded", uf.Name)
	}
	tenv := &Env{vc: vc, pkg: pkg, vars: map[string]TV{}, heap: Heap{m: map[string]string{}}, top0: "1"}
	if len(args) != len(uf.Params) {
		sfail("ufunc %s: want %d args", uf.Name, len(uf.Params))
	}
	var sorts []string
	var ptypes []types.Type
	for _, p := range uf.Params {
		t := tenv.resolveType(p.Type)
		if !isValueOnly(t, 0) {
			// reference-typed arguments are allowed for uninterpreted functions: the function is then a
			// function of the reference, i.e. the referenced object is assumed immutable (listed as assumption)
			vc.assumed["ufunc "+uf.Name+" takes a reference: the referenced object is treated as immutable"] = true
		}
		ptypes = append(ptypes, t)
		sorts = append(sorts, vc.sorts.sortOf(t))
	}
	rt := tenv.resolveType(uf.Result)
	name := q("uf:" + strings.TrimPrefix(uf.Pkg, modulePath+"/") + "." + uf.Name)
	key := "ufunc:" + uf.Pkg + "." + uf.Name
	if !vc.declared[key] {
		vc.declared[key] = true
		if len(sorts) == 0 {
			vc.globals = append(vc.globals, fmt.Sprintf("(declare-const %s %s)", name, vc.sorts.sortOf(rt)))
		} else {
			vc.globals = append(vc.globals, fmt.Sprintf("(declare-fun %s (%s) %s)", name, strings.Join(sorts, " "), vc.sorts.sortOf(rt)))
		}
		vc.emitAxioms(uf.Pkg)
	}
	var ts []string
	for i, a := range args {
		v := env.expr(a)
		if isUntypedNil(v.Ty) {
			v.T = vc.sorts.zero(ptypes[i], vc.lits)
		}
		ts = append(ts, v.T)
	}
	if len(ts) == 0 {
		return TV{name, rt}
	}
	return TV{"(" + name + " " + strings.Join(ts, " ") + ")", rt}
}

func (vc *VC) emitAxioms(pkgPath string) {
	key := "axioms:" + pkgPath
	if vc.declared[key] {
		return
	}
	vc.declared[key] = true
	pkg := vc.P.typesPkg(pkgPath)
	for _, ax := range vc.P.cs.Axioms {
		if ax.Pkg != pkgPath {
			continue
		}
		env := &Env{vc: vc, pkg: pkg, vars: map[string]TV{}, heap: Heap{m: map[string]string{}}, top0: "1"}
		env.old = env
		var binds []string
		for i, prm := range ax.Params {
			t := env.resolveType(prm.Type)
			bn := fmt.Sprintf("%s!ax%d", prm.Name, i)
			binds = append(binds, fmt.Sprintf("(%s %s)", bn, vc.sorts.sortOf(t)))
			env.vars[prm.Name] = TV{bn, t}
		}
		body := env.expr(ax.Body)
		vc.assumed["axiom: "+ax.Name+" ("+strings.TrimPrefix(pkgPath, modulePath+"/")+")"] = true
		if len(binds) == 0 {
			vc.globals = append(vc.globals, "(assert "+body.T+")")
		} else {
			vc.globals = append(vc.globals, fmt.Sprintf("(assert (forall (%s) %s))", strings.Join(binds, " "), body.T))
		}
	}
}
