package main

// Bounded stand-ins and replays: Go tests kept under /verif/harness/<name>/ and injected into the real
// package with `go test -overlay` (nothing is written into /repo). They run the real code.

import (
	"bufio"
	"encoding/json"
	"fmt"
	"os"
	"os/exec"
	"path/filepath"
	"strconv"
	"strings"
	"time"
)

type harnessMeta struct {
	Dir      string   `json:"dir"`   // run in this directory (relative to the verification root) instead of overlaying into the repo
	Pkg      string   `json:"pkg"`   // directory relative to the repo root
	Test     string   `json:"test"`  // test function name
	Files    []string `json:"files"` // files to overlay into Pkg
	Bound    string   `json:"bound"` // human description (quick)
	BoundT   string   `json:"bound_thorough"`
	Env      map[string]string `json:"env"`
	Timeout  int      `json:"timeout_s"`
	TimeoutT int      `json:"timeout_thorough_s"`
}

func runBoundedHarness(o *runOpts, name string) boundedResult {
	res := boundedResult{Name: name}
	dir := filepath.Join(o.verif, "harness", name)
	b, err := os.ReadFile(filepath.Join(dir, "meta.json"))
	if err != nil {
		res.Replay = writeHarnessReplay(o, name, "harness metadata missing: "+err.Error(), "")
		return res
	}
	var m harnessMeta
	if err := json.Unmarshal(b, &m); err != nil {
		res.Replay = writeHarnessReplay(o, name, "bad harness metadata: "+err.Error(), "")
		return res
	}
	res.Bound = m.Bound
	timeout := m.Timeout
	if o.tier == "thorough" {
		if m.BoundT != "" {
			res.Bound = m.BoundT
		}
		if m.TimeoutT > 0 {
			timeout = m.TimeoutT
		}
	}
	if timeout == 0 {
		timeout = 120
	}
	scratch, err := os.MkdirTemp("", "gvc-harness-")
	if err != nil {
		res.Replay = writeHarnessReplay(o, name, err.Error(), "")
		return res
	}
	defer os.RemoveAll(scratch)
	ov := map[string]map[string]string{"Replace": {}}
	for _, f := range m.Files {
		ov["Replace"][filepath.Join(o.repo, m.Pkg, f)] = filepath.Join(dir, f)
	}
	ob, _ := json.Marshal(ov)
	ovPath := filepath.Join(scratch, "overlay.json")
	os.WriteFile(ovPath, ob, 0o644)
	start := time.Now()
	cmd := exec.Command("go", "test", "-overlay", ovPath, "-vet=off", "-v", "-count=1", fmt.Sprintf("-timeout=%ds", timeout), "-run", "^"+m.Test+"$", "./"+m.Pkg)
	cmd.Dir = o.repo
	if m.Dir != "" {
		// a fixture module of its own (go.mod replaces the gleece module with the repository under check)
		cmd = exec.Command("go", "test", "-vet=off", "-v", "-count=1", fmt.Sprintf("-timeout=%ds", timeout), "-run", "^"+m.Test+"$", ".")
		cmd.Dir = filepath.Join(o.verif, m.Dir)
	}
	cmd.Env = append(os.Environ(), "GOFLAGS=-mod=mod", "GOPROXY=off", "VERIF_TIER="+o.tier, "VERIF_SEED="+strconv.Itoa(seedFromEnv()), "GOCACHE="+goCacheDir())
	for k, v := range m.Env {
		cmd.Env = append(cmd.Env, k+"="+v)
	}
	// the module files of the repository must come out of the run exactly as they went in
	modBefore, _ := os.ReadFile(filepath.Join(o.repo, "go.mod"))
	sumBefore, _ := os.ReadFile(filepath.Join(o.repo, "go.sum"))
	out, runErr := cmd.CombinedOutput()
	if b, err := os.ReadFile(filepath.Join(o.repo, "go.mod")); err == nil && modBefore != nil && string(b) != string(modBefore) {
		os.WriteFile(filepath.Join(o.repo, "go.mod"), modBefore, 0o644)
	}
	if b, err := os.ReadFile(filepath.Join(o.repo, "go.sum")); err == nil && sumBefore != nil && string(b) != string(sumBefore) {
		os.WriteFile(filepath.Join(o.repo, "go.sum"), sumBefore, 0o644)
	}
	res.Seconds = time.Since(start).Seconds()
	known := loadKnownFindings(o.verif)
	var fails []string
	sc := bufio.NewScanner(strings.NewReader(string(out)))
	sc.Buffer(make([]byte, 1<<20), 1<<20)
	sawCases := false
	for sc.Scan() {
		line := strings.TrimSpace(sc.Text())
		if i := strings.Index(line, "VERIF-CASES:"); i >= 0 {
			f := strings.Fields(line[i+len("VERIF-CASES:"):])
			if len(f) > 0 {
				n, _ := strconv.ParseInt(f[0], 10, 64)
				res.Cases += n
				sawCases = true
			}
			if strings.Contains(line, "exhaustive") {
				res.Exhaustive = true
			}
		}
		if i := strings.Index(line, "VERIF-FAIL:"); i >= 0 {
			msg := strings.TrimSpace(line[i+len("VERIF-FAIL:"):])
			class := msg
			if j := strings.Index(msg, "class="); j >= 0 {
				class = strings.Fields(msg[j+6:])[0]
			}
			obl := "harness:" + name + ":" + class
			matched := false
			for _, k := range known {
				if k.Status != "fixed" && k.Obligation == obl && (k.Property == "" || k.Property == o.property) {
					res.KnownLines = append(res.KnownLines, fmt.Sprintf("KNOWN-FINDING: property=%s %s — %s", o.property, obl, k.What))
					matched = true
					break
				}
			}
			if !matched {
				fails = append(fails, msg)
			}
		}
	}
	// de-duplicate known lines
	res.KnownLines = uniq(res.KnownLines)
	if len(fails) > 0 {
		res.Replay = writeHarnessReplay(o, name, strings.Join(uniq(fails), "\n"), string(out))
		return res
	}
	if runErr != nil && len(res.KnownLines) == 0 || !sawCases {
		// the harness itself failed to build or run: the bounded stand-in could not be executed
		if !sawCases || !strings.Contains(string(out), "VERIF-DONE") {
			res.Replay = writeHarnessReplay(o, name, "harness did not complete: "+fmt.Sprint(runErr), string(out))
			return res
		}
	}
	res.OK = true
	return res
}

func goCacheDir() string {
	if d := os.Getenv("GOCACHE"); d != "" {
		return d
	}
	out, err := exec.Command("go", "env", "GOCACHE").Output()
	if err == nil {
		return strings.TrimSpace(string(out))
	}
	return filepath.Join(os.TempDir(), "gocache")
}

func uniq(xs []string) []string {
	seen := map[string]bool{}
	var out []string
	for _, x := range xs {
		if !seen[x] {
			seen[x] = true
			out = append(out, x)
		}
	}
	return out
}

func writeHarnessReplay(o *runOpts, name, what, output string) string {
	dir := filepath.Join(o.verif, "replays", orDefault(o.property, "adhoc"))
	os.MkdirAll(dir, 0o755)
	path := filepath.Join(dir, "harness-"+sanitize(name)+".json")
	b, _ := json.MarshalIndent(map[string]any{"property": o.property, "bounded_stand_in": name, "failures": what,
		"how_to_rerun": "bin/gvc check --property " + o.property + "  (the harness under /verif/harness/" + name + " is injected with go test -overlay)",
		"output": truncate(output, 20000)}, "", " ")
	os.WriteFile(path, b, 0o644)
	return path
}
