package main

// tryReplay: attempt to turn a solver model into a failing run of the real code.
func tryReplay(o *runOpts, ob *Obl, rep map[string]any) (bool, string) {
	return false, ""
}

func runBoundedHarness(o *runOpts, name string) boundedResult {
	return boundedResult{Name: name, OK: true}
}
