package main

import (
	"fmt"
	"go/types"
	"strings"

	"golang.org/x/tools/go/ssa"
)

// Obl is one proof obligation = one SMT query.
type Obl struct {
	Name   string // pkg.F#kind...
	Kind   string // post, pre@call, inv.init, inv.step, frame, safe, dec, lemma, cover
	Func   string
	Props  []string
	Pos    int    // number of body lines visible to the query
	Guard  string // reachability condition
	Goal   string
	Cover  bool // must be SAT
	Src    string
	Line   int
	Vars   []ModelVar // what to print from the model
	query  string
	Result *SolveResult
	plan   *replayPlan // non-nil: inputs are plain values, candidate models can be run on the real code
}

type ModelVar struct {
	Name string
	Term string
	Sort string
}

// Heap maps a component to its current version term. Missing key: version of the heap's epoch.
type Heap struct {
	m     map[string]string
	epoch int
	rec   *recHeap // non-nil: symbolic heap parameters of a recursive spec function
}

type recHeap struct {
	used  map[string]bool
	order []string
}

func (h Heap) clone() Heap {
	n := Heap{m: make(map[string]string, len(h.m)), epoch: h.epoch, rec: h.rec}
	for k, v := range h.m {
		n.m[k] = v
	}
	return n
}

// VC accumulates the declarations of one verification unit (one function, one lemma).
type VC struct {
	P        *Prog
	sorts    *SortReg
	lits     *Lits
	globals  []string
	lines    []string
	comps    map[string]string // component -> sort
	compTy   map[string]compInfo
	declared map[string]bool
	nfresh   int
	obls     []*Obl
	unsup    []string
	epochs   int
	epochDef map[int][]epochSrc
	funcName string
	props    []string
	pureUsed map[string]bool
	assumed  map[string]bool // contracts assumed (externs, trusted, callee contracts)
	recs     map[string]*recInfo
	replay   *replayPlan
	replayGlobalsFrom int
	opaque   []string // pure functions whose contract axioms are withheld in this unit
}

type epochSrc struct {
	cond  string
	epoch int
	m     map[string]string
}

func newVC(p *Prog, name string) *VC {
	return &VC{P: p, sorts: newSortReg(), lits: newLits(), comps: map[string]string{}, compTy: map[string]compInfo{}, declared: map[string]bool{},
		epochDef: map[int][]epochSrc{}, funcName: name, pureUsed: map[string]bool{}, assumed: map[string]bool{}}
}

func (vc *VC) unsupported(format string, a ...any) {
	vc.unsup = append(vc.unsup, fmt.Sprintf(format, a...))
}

func (vc *VC) emit(s string) { vc.lines = append(vc.lines, s) }

func (vc *VC) assume(t string) {
	if t == "true" {
		return
	}
	vc.emit("(assert " + t + ")")
}

func (vc *VC) fresh(prefix, sort string) string {
	vc.nfresh++
	n := q(fmt.Sprintf("%s!%d", prefix, vc.nfresh))
	vc.emit(fmt.Sprintf("(declare-const %s %s)", n, sort))
	return n
}

func (vc *VC) define(prefix, sort, def string) string {
	n := vc.fresh(prefix, sort)
	vc.emit(fmt.Sprintf("(assert (= %s %s))", n, def))
	return n
}

func (vc *VC) global(name, decl string) {
	if vc.declared[name] {
		return
	}
	vc.declared[name] = true
	vc.globals = append(vc.globals, decl)
}

// ---- heap components ----

type compInfo struct {
	kind string // field, elems, cell, mapval
	ty   types.Type
	dom  string // for mapval: the domain component
}

func (vc *VC) compField(st types.Type, i int) string {
	s := st.Underlying().(*types.Struct)
	name := "H:" + vc.sorts.structName(st) + "." + fieldName(s, i)
	if _, ok := vc.comps[name]; !ok {
		vc.compTy[name] = compInfo{kind: "field", ty: s.Field(i).Type()}
		vc.comps[name] = fmt.Sprintf("(Array Int %s)", vc.sorts.sortOf(s.Field(i).Type()))
	}
	return name
}

func (vc *VC) compElems(elem types.Type) string {
	name := "E:" + shortTypeKey(elem)
	if _, ok := vc.comps[name]; !ok {
		vc.compTy[name] = compInfo{kind: "elems", ty: elem}
		vc.comps[name] = fmt.Sprintf("(Array Int (Array Int %s))", vc.sorts.sortOf(elem))
	}
	return name
}

func (vc *VC) compCell(t types.Type) string {
	name := "C:" + shortTypeKey(t)
	if _, ok := vc.comps[name]; !ok {
		vc.compTy[name] = compInfo{kind: "cell", ty: t}
		vc.comps[name] = fmt.Sprintf("(Array Int %s)", vc.sorts.sortOf(t))
	}
	return name
}

func (vc *VC) compMapDom(m *types.Map) string {
	name := "MD:" + shortTypeKey(m.Key()) + ":" + shortTypeKey(m.Elem())
	if _, ok := vc.comps[name]; !ok {
		vc.comps[name] = fmt.Sprintf("(Array Int (Array %s Bool))", vc.sorts.sortOf(m.Key()))
	}
	return name
}

func (vc *VC) compMapVal(m *types.Map) string {
	name := "MV:" + shortTypeKey(m.Key()) + ":" + shortTypeKey(m.Elem())
	if _, ok := vc.comps[name]; !ok {
		vc.compTy[name] = compInfo{kind: "mapval", ty: m.Elem(), dom: vc.compMapDom(m)}
		vc.comps[name] = fmt.Sprintf("(Array Int (Array %s %s))", vc.sorts.sortOf(m.Key()), vc.sorts.sortOf(m.Elem()))
	}
	return name
}

func (vc *VC) compGlobal(g *ssa.Global) string {
	name := "G:" + strings.TrimPrefix(g.Pkg.Pkg.Path(), modulePath+"/") + "." + g.Name()
	if _, ok := vc.comps[name]; !ok {
		vc.comps[name] = vc.sorts.sortOf(g.Type().(*types.Pointer).Elem())
	}
	return name
}

func (vc *VC) compPseudo(name, sort string) string {
	if _, ok := vc.comps[name]; !ok {
		vc.comps[name] = sort
	}
	return name
}

const compTop = "$top"

func (vc *VC) compSort(c string) string {
	if c == compTop {
		return "Int"
	}
	s, ok := vc.comps[c]
	if !ok {
		panic("unknown comp " + c)
	}
	return s
}

// get returns the current version term of component c in heap h.
func (vc *VC) get(h Heap, c string) string {
	if h.rec != nil {
		if !h.rec.used[c] {
			h.rec.used[c] = true
			h.rec.order = append(h.rec.order, c)
		}
		return q("hp:" + c)
	}
	if v, ok := h.m[c]; ok {
		return v
	}
	return vc.epochVersion(c, h.epoch)
}

func (vc *VC) epochVersion(c string, e int) string {
	name := q(fmt.Sprintf("%s@e%d", c, e))
	key := "comp:" + name
	if vc.declared[key] {
		return name
	}
	vc.declared[key] = true
	decl := fmt.Sprintf("(declare-const %s %s)", name, vc.compSort(c))
	srcs, merged := vc.epochDef[e]
	if !merged {
		// entry epoch or a havoc epoch: unconstrained
		vc.globals = append(vc.globals, decl)
		if c == compTop {
			vc.globals = append(vc.globals, fmt.Sprintf("(assert (>= %s 1))", name))
		} else if ax := vc.closedAxiom(c, name, vc.epochVersion(compTop, e), func(d string) string { return vc.epochVersion(d, e) }); ax != "" {
			vc.globals = append(vc.globals, ax)
		}
		return name
	}
	// merged epoch: ite over sources; defined in the body at first use
	vc.emit(decl)
	var def string
	for i := len(srcs) - 1; i >= 0; i-- {
		var v string
		if t, ok := srcs[i].m[c]; ok {
			v = t
		} else {
			v = vc.epochVersion(c, srcs[i].epoch)
		}
		if def == "" {
			def = v
		} else {
			def = ite(srcs[i].cond, v, def)
		}
	}
	vc.emit(fmt.Sprintf("(assert (= %s %s))", name, def))
	return name
}

func (vc *VC) newVersion(c string) string {
	vc.nfresh++
	n := q(fmt.Sprintf("%s@%d", c, vc.nfresh))
	vc.emit(fmt.Sprintf("(declare-const %s %s)", n, vc.compSort(c)))
	return n
}

// set assigns a new version of c defined as term t.
func (vc *VC) set(h *Heap, c string, t string) {
	n := vc.newVersion(c)
	vc.emit(fmt.Sprintf("(assert (= %s %s))", n, t))
	h.m[c] = n
}

// havoc gives c an unconstrained new version.
func (vc *VC) havoc(h *Heap, c string) string {
	n := vc.newVersion(c)
	h.m[c] = n
	return n
}

// havocAll starts a new epoch: every component is unconstrained, except $top which only grows.
func (vc *VC) havocAll(h *Heap) {
	oldTop := vc.get(*h, compTop)
	vc.epochs++
	h.epoch = vc.epochs
	h.m = map[string]string{}
	nt := vc.havoc(h, compTop)
	vc.assume(fmt.Sprintf("(>= %s %s)", nt, oldTop))
}

type heapEdge struct {
	cond string
	h    Heap
}

// merge joins heaps flowing in over several edges.
func (vc *VC) merge(ins []heapEdge) Heap {
	if len(ins) == 1 {
		return ins[0].h.clone()
	}
	sameEpoch := true
	for _, e := range ins[1:] {
		if e.h.epoch != ins[0].h.epoch {
			sameEpoch = false
		}
	}
	out := Heap{m: map[string]string{}, epoch: ins[0].h.epoch}
	if !sameEpoch {
		vc.epochs++
		out.epoch = vc.epochs
		var srcs []epochSrc
		for _, e := range ins {
			srcs = append(srcs, epochSrc{cond: e.cond, epoch: e.h.epoch, m: e.h.m})
		}
		vc.epochDef[out.epoch] = srcs
	}
	keys := map[string]bool{}
	for _, e := range ins {
		for k := range e.h.m {
			keys[k] = true
		}
	}
	for _, k := range sortedKeys(keys) {
		vals := make([]string, len(ins))
		same := true
		for i, e := range ins {
			vals[i] = vc.get(e.h, k)
			if vals[i] != vals[0] {
				same = false
			}
		}
		if same {
			out.m[k] = vals[0]
			continue
		}
		def := vals[len(vals)-1]
		for i := len(vals) - 2; i >= 0; i-- {
			def = ite(ins[i].cond, vals[i], def)
		}
		n := vc.newVersion(k)
		vc.emit(fmt.Sprintf("(assert (= %s %s))", n, def))
		out.m[k] = n
	}
	return out
}

// ---- obligations ----

func (vc *VC) oblige(kind, name, guard, goal, src string, line int) *Obl {
	o := &Obl{Name: vc.funcName + "#" + name, Kind: kind, Func: vc.funcName, Props: vc.props, Pos: len(vc.lines), Guard: guard, Goal: goal, Src: src, Line: line}
	vc.obls = append(vc.obls, o)
	return o
}

// bodyMarker separates the background theory (prelude, type declarations, literals, global axioms) from the facts of
// the unit itself in a query; see liteQuery.
const bodyMarker = "; --- body ---"

// query text for an obligation
func (vc *VC) queryFor(o *Obl) string {
	var sb strings.Builder
	sb.WriteString(prelude)
	for _, d := range vc.sorts.typeDecls {
		sb.WriteString(d)
		sb.WriteByte('\n')
	}
	for _, d := range vc.lits.decls() {
		sb.WriteString(d)
		sb.WriteByte('\n')
	}
	globals := vc.globals
	if vc.replayGlobalsFrom > 0 && vc.replayGlobalsFrom < len(globals) {
		// declarations added only for counterexample replay are not part of proof queries
		globals = globals[:vc.replayGlobalsFrom]
	}
	for _, d := range globals {
		sb.WriteString(d)
		sb.WriteByte('\n')
	}
	sb.WriteString(bodyMarker + "\n")
	for _, d := range vc.lines[:o.Pos] {
		sb.WriteString(d)
		sb.WriteByte('\n')
	}
	if o.Cover {
		sb.WriteString(fmt.Sprintf("(assert %s)\n", and(o.Guard, o.Goal)))
	} else {
		sb.WriteString(fmt.Sprintf("(assert (not %s))\n", implies(o.Guard, o.Goal)))
	}
	sb.WriteString("(check-sat)\n")
	if len(o.Vars) > 0 {
		var ts []string
		for _, v := range o.Vars {
			ts = append(ts, v.Term)
		}
		sb.WriteString("(get-value (" + strings.Join(ts, " ") + "))\n")
	}
	return sb.String()
}


// ---- closed heap: no object reachable from an allocated object is unallocated (Go memory safety) ----

// refLeaves lists the reference-valued leaves of a value term of Go type t.
func (vc *VC) refLeaves(term string, t types.Type, depth int) []string {
	t = types.Unalias(t)
	switch u := t.Underlying().(type) {
	case *types.Pointer, *types.Map:
		return []string{term}
	case *types.Slice:
		return []string{"(s-base " + term + ")"}
	case *types.Interface:
		return []string{"(i-ref " + term + ")"}
	case *types.Struct:
		if depth <= 0 {
			return nil
		}
		var out []string
		for i := 0; i < u.NumFields(); i++ {
			out = append(out, vc.refLeaves(vc.sorts.structGet(t, i, term), u.Field(i).Type(), depth-1)...)
		}
		return out
	}
	return nil
}

func (vc *VC) closedAxiom(c, version, top string, domOf func(string) string) string {
	return vc.closedAxiomRegion(c, version, "1", top, domOf)
}

// closedAxiomRegion: closedness for the objects with lo <= ref < top
func (vc *VC) closedAxiomRegion(c, version, lo, top string, domOf func(string) string) string {
	ci, ok := vc.compTy[c]
	if !ok {
		return ""
	}
	var val, bind, guard, pat string
	switch ci.kind {
	case "field", "cell":
		val = sel(version, "r")
		bind = "((r Int))"
		guard = "(and (<= " + lo + " r) (< r " + top + "))"
		pat = val
	case "elems":
		val = sel(sel(version, "r"), "j")
		bind = "((r Int) (j Int))"
		guard = "(and (<= " + lo + " r) (< r " + top + "))"
		pat = val
	case "mapval":
		ks := vc.comps[c]
		// (Array Int (Array K V)) -> K
		ks = strings.TrimPrefix(ks, "(Array Int (Array ")
		depth, end := 0, 0
		for i := 0; i < len(ks); i++ {
			if ks[i] == '(' {
				depth++
			} else if ks[i] == ')' {
				depth--
			} else if ks[i] == ' ' && depth == 0 {
				end = i
				break
			}
		}
		ks = ks[:end]
		val = sel(sel(version, "r"), "k")
		bind = "((r Int) (k " + ks + "))"
		guard = "(and (<= " + lo + " r) (< r " + top + ") " + sel(sel(domOf(ci.dom), "r"), "k") + ")"
		pat = val
	default:
		return ""
	}
	cs := vc.closedFacts(val, ci.ty, top, 2)
	if len(cs) == 0 {
		return ""
	}
	return fmt.Sprintf("(assert (forall %s (! (=> %s %s) :pattern (%s))))", bind, guard, and(cs...), pat)
}

// assumeClosed emits the closed-heap axiom for the current version of c in h (used after havocs).
func (vc *VC) assumeClosed(h Heap, c string) {
	if c == compTop {
		return
	}
	if ax := vc.closedAxiom(c, vc.get(h, c), vc.get(h, compTop), func(d string) string { return vc.get(h, d) }); ax != "" {
		vc.emit(ax)
	}
}


// ---- ghost events: a counter and the arguments of the latest occurrence ----

func (vc *VC) evCounter(name string) string {
	return vc.compPseudo("$ev:"+name+":n", "Int")
}

func (vc *VC) evArgTypes(name string) []types.Type {
	ev := vc.P.cs.Events[name]
	if ev == nil {
		sfail("undeclared event %s", name)
	}
	pkg := vc.P.typesPkg(ev.Pkg)
	if pkg == nil {
		sfail("event %s: package %s not loaded", name, ev.Pkg)
	}
	env := &Env{vc: vc, pkg: pkg, vars: map[string]TV{}, heap: Heap{m: map[string]string{}}, top0: "1"}
	var out []types.Type
	for _, p := range ev.Params {
		out = append(out, env.resolveType(p.Type))
	}
	return out
}

func (vc *VC) evArg(name string, i int) (string, types.Type) {
	tys := vc.evArgTypes(name)
	if i < 0 || i >= len(tys) {
		sfail("event %s has no argument %d", name, i)
	}
	return vc.compPseudo(fmt.Sprintf("$ev:%s:%d", name, i), vc.sorts.sortOf(tys[i])), tys[i]
}

func (vc *VC) evComps(name string) []string {
	out := []string{vc.evCounter(name)}
	for i := range vc.evArgTypes(name) {
		c, _ := vc.evArg(name, i)
		out = append(out, c)
	}
	return out
}


// zeroArray: an array whose every element is the zero value (a quantified definition rather than an
// (as const ...) term: cvc5 only accepts syntactic values there)
func (vc *VC) zeroArray(elemSort, zero string) string {
	n := vc.fresh("zeros", fmt.Sprintf("(Array Int %s)", elemSort))
	vc.emit(fmt.Sprintf("(assert (forall ((j Int)) (! (= (select %s j) %s) :pattern ((select %s j)))))", n, zero, n))
	return n
}


// closedFacts: well-formedness of a heap-resident value of Go type t (references allocated, slices well-formed)
func (vc *VC) closedFacts(term string, t types.Type, top string, depth int) []string {
	t = types.Unalias(t)
	switch u := t.Underlying().(type) {
	case *types.Pointer, *types.Map:
		return []string{"(<= 0 " + term + ")", "(< " + term + " " + top + ")"}
	case *types.Slice:
		return []string{"(wf-slice " + term + ")", "(< (s-base " + term + ") " + top + ")", "(=> (= (s-base " + term + ") 0) (= (s-cap " + term + ") 0))"}
	case *types.Interface:
		return []string{"(<= 0 (i-ref " + term + "))", "(< (i-ref " + term + ") " + top + ")"}
	case *types.Basic:
		if u.Info()&types.IsUnsigned != 0 {
			return []string{"(>= " + term + " 0)"}
		}
	case *types.Struct:
		if depth <= 0 {
			return nil
		}
		var out []string
		for i := 0; i < u.NumFields(); i++ {
			out = append(out, vc.closedFacts(vc.sorts.structGet(t, i, term), u.Field(i).Type(), top, depth-1)...)
		}
		return out
	}
	return nil
}
