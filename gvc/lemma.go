package main

import (
	"fmt"
	"strings"
)

// translateLemma: a stated consequence of contracts. Parameters are universally quantified (Skolem constants);
// pure functions occur as uninterpreted functions constrained by their (separately verified) contracts.
func translateLemma(p *Prog, l *Lemma) (vc *VC) {
	name := strings.TrimPrefix(l.Pkg, modulePath+"/") + "#lemma." + l.Name
	vc = newVC(p, strings.TrimPrefix(l.Pkg, modulePath+"/"))
	vc.props = l.Props
	defer func() {
		if r := recover(); r != nil {
			if se, ok := r.(specErr); ok {
				vc.unsupported("contract-stale: lemma %s: %s", l.Name, se.msg)
				return
			}
			panic(r)
		}
	}()
	_ = name
	pkg := p.typesPkg(l.Pkg)
	if pkg == nil {
		vc.unsupported("contract-stale: package %s not loaded", l.Pkg)
		return vc
	}
	env := &Env{vc: vc, pkg: pkg, vars: map[string]TV{}, heap: Heap{m: map[string]string{}}, top0: "1"}
	env.old = env
	for _, prm := range l.Params {
		t := env.resolveType(prm.Type)
		n := q("l:" + prm.Name)
		vc.global("lp:"+prm.Name, fmt.Sprintf("(declare-const %s %s)", n, vc.sorts.sortOf(t)))
		env.vars[prm.Name] = TV{n, t}
		if isUnsigned(t) {
			vc.assume("(>= " + n + " 0)")
		}
	}
	t, err := env.Bool(l.Body)
	if err != nil {
		vc.unsupported("contract-stale: lemma %s: %v", l.Name, err)
		return vc
	}
	o := vc.oblige("lemma", "lemma."+l.Name, "true", t, l.Src, l.Line)
	_ = o
	return vc
}
