package main

// Term-mode evaluation of small, loop-free, side-effect-free function literals (predicates and comparators
// passed to slices.ContainsFunc / IndexFunc / SortFunc ...). The closure body is turned into a closed SMT
// term over its arguments so that it can be used under a quantifier.

import (
	"fmt"
	"go/token"
	"go/types"

	"golang.org/x/tools/go/ssa"
)

type closEval struct {
	ft     *fnTrans
	fn     *ssa.Function
	vals   map[ssa.Value]string
	locals map[*ssa.Alloc]string // non-escaping struct locals as values
	locs   map[ssa.Value]*closLoc
	h      Heap
	reach  map[int]string
	edge   map[[2]int]string
}

type closLoc struct {
	alloc *ssa.Alloc // local
	loc   *Loc       // heap
	path  []pathStep
}

// closureBindings finds the MakeClosure for a function value and returns the terms of its bindings.
func (ft *fnTrans) closureOf(v ssa.Value) (*ssa.Function, []ssa.Value, bool) {
	switch x := v.(type) {
	case *ssa.MakeClosure:
		return x.Fn.(*ssa.Function), x.Bindings, true
	case *ssa.Function:
		return x, nil, true
	case *ssa.ChangeType:
		return ft.closureOf(x.X)
	}
	return nil, nil, false
}

// evalClosure returns the result term of calling fn (with bindings) on args in heap h.
func (ft *fnTrans) evalClosure(fn *ssa.Function, bindings []ssa.Value, args []string, h Heap) string {
	if len(fn.Blocks) == 0 {
		unsup("closure %s has no body", fn.Name())
	}
	ce := &closEval{ft: ft, fn: fn, vals: map[ssa.Value]string{}, locals: map[*ssa.Alloc]string{}, locs: map[ssa.Value]*closLoc{},
		h: h, reach: map[int]string{}, edge: map[[2]int]string{}}
	for i, fv := range fn.FreeVars {
		if i < len(bindings) {
			b := bindings[i]
			if l, ok := ft.locs[b]; ok {
				ce.locs[fv] = &closLoc{loc: l}
			} else {
				ce.vals[fv] = ft.val(b)
			}
		}
	}
	if len(args) != len(fn.Params) {
		unsup("closure %s: arity mismatch", fn.Name())
	}
	for i, p := range fn.Params {
		ce.vals[p] = args[i]
	}
	// loop-free check and RPO
	for _, b := range fn.Blocks {
		for _, s := range b.Succs {
			if s.Dominates(b) {
				unsup("closure %s contains a loop", fn.Name())
			}
		}
	}
	order := rpoOf(fn)
	var result string
	type retEdge struct{ cond, val string }
	var rets []retEdge
	for _, b := range order {
		var conds []string
		for _, p := range b.Preds {
			if c, ok := ce.edge[[2]int{p.Index, b.Index}]; ok {
				conds = append(conds, c)
			}
		}
		if b.Index == 0 {
			ce.reach[0] = "true"
		} else {
			ce.reach[b.Index] = or(conds...)
		}
		reach := ce.reach[b.Index]
		for _, ins := range b.Instrs {
			switch x := ins.(type) {
			case *ssa.DebugRef:
			case *ssa.Phi:
				var def string
				for j := len(b.Preds) - 1; j >= 0; j-- {
					c, ok := ce.edge[[2]int{b.Preds[j].Index, b.Index}]
					if !ok {
						continue
					}
					v := ce.val(x.Edges[j])
					if def == "" {
						def = v
					} else {
						def = ite(c, v, def)
					}
				}
				ce.vals[x] = def
			case *ssa.If:
				c := ce.val(x.Cond)
				ce.edge[[2]int{b.Index, b.Succs[0].Index}] = and(reach, c)
				ce.edge[[2]int{b.Index, b.Succs[1].Index}] = and(reach, not(c))
			case *ssa.Jump:
				ce.edge[[2]int{b.Index, b.Succs[0].Index}] = reach
			case *ssa.Return:
				if len(x.Results) != 1 {
					unsup("closure %s must return exactly one value", fn.Name())
				}
				rets = append(rets, retEdge{reach, ce.val(x.Results[0])})
			default:
				ce.instr(ins)
			}
		}
	}
	for i := len(rets) - 1; i >= 0; i-- {
		if result == "" {
			result = rets[i].val
		} else {
			result = ite(rets[i].cond, rets[i].val, result)
		}
	}
	if result == "" {
		unsup("closure %s has no return", fn.Name())
	}
	return result
}

func rpoOf(fn *ssa.Function) []*ssa.BasicBlock {
	seen := map[int]bool{}
	var post []*ssa.BasicBlock
	var dfs func(b *ssa.BasicBlock)
	dfs = func(b *ssa.BasicBlock) {
		seen[b.Index] = true
		for _, s := range b.Succs {
			if !seen[s.Index] {
				dfs(s)
			}
		}
		post = append(post, b)
	}
	dfs(fn.Blocks[0])
	for i, j := 0, len(post)-1; i < j; i, j = i+1, j-1 {
		post[i], post[j] = post[j], post[i]
	}
	return post
}

func (ce *closEval) val(v ssa.Value) string {
	if t, ok := ce.vals[v]; ok {
		return t
	}
	if c, ok := v.(*ssa.Const); ok {
		return ce.ft.constTerm(c)
	}
	unsup("closure %s: value %s (%T) outside the term-mode subset", ce.fn.Name(), v.Name(), v)
	return ""
}

func (ce *closEval) loadLoc(l *closLoc) string {
	vc := ce.ft.vc
	var t string
	if l.alloc != nil {
		t = ce.locals[l.alloc]
	} else {
		t = ce.ft.load(l.loc, ce.h)
	}
	for _, s := range l.path {
		t = vc.sorts.structGet(s.st, s.field, t)
	}
	return t
}

func (ce *closEval) locOf(v ssa.Value) *closLoc {
	if l, ok := ce.locs[v]; ok {
		return l
	}
	if a, ok := v.(*ssa.Alloc); ok {
		if _, isLocal := ce.locals[a]; isLocal {
			return &closLoc{alloc: a}
		}
	}
	// first-class pointer value
	t := ce.val(v)
	pt, ok := v.Type().Underlying().(*types.Pointer)
	if !ok {
		unsup("closure: deref of non-pointer")
	}
	if _, isStruct := pt.Elem().Underlying().(*types.Struct); isStruct {
		return &closLoc{loc: &Loc{kind: lkField, st: pt.Elem(), field: -1, ref: t, ty: pt.Elem()}}
	}
	return &closLoc{loc: &Loc{kind: lkCell, elem: pt.Elem(), ref: t, ty: pt.Elem()}}
}

func (ce *closEval) instr(ins ssa.Instruction) {
	vc := ce.ft.vc
	switch x := ins.(type) {
	case *ssa.Alloc:
		elem := x.Type().(*types.Pointer).Elem()
		if x.Heap {
			unsup("closure %s allocates", ce.fn.Name())
		}
		ce.locals[x] = vc.sorts.zero(elem, vc.lits)
	case *ssa.Store:
		l := ce.locOf(x.Addr)
		if l.alloc == nil {
			unsup("closure %s writes to the heap", ce.fn.Name())
		}
		if len(l.path) == 0 {
			ce.locals[l.alloc] = ce.val(x.Val)
			return
		}
		var build func(cur string, path []pathStep) string
		build = func(cur string, path []pathStep) string {
			if len(path) == 0 {
				return ce.val(x.Val)
			}
			s := path[0]
			return vc.sorts.structSet(s.st, s.field, cur, build(vc.sorts.structGet(s.st, s.field, cur), path[1:]))
		}
		ce.locals[l.alloc] = build(ce.locals[l.alloc], l.path)
	case *ssa.FieldAddr:
		st := x.X.Type().Underlying().(*types.Pointer).Elem()
		parent := ce.locOf(x.X)
		if parent.loc != nil && parent.loc.kind == lkField && parent.loc.field < 0 && len(parent.path) == 0 {
			fty := st.Underlying().(*types.Struct).Field(x.Field).Type()
			ce.locs[x] = &closLoc{loc: &Loc{kind: lkField, st: st, field: x.Field, ref: parent.loc.ref, ty: fty}}
			return
		}
		nl := *parent
		nl.path = append(append([]pathStep{}, parent.path...), pathStep{st, x.Field})
		ce.locs[x] = &nl
	case *ssa.UnOp:
		switch x.Op {
		case token.MUL:
			ce.vals[x] = ce.loadLoc(ce.locOf(x.X))
		case token.NOT:
			ce.vals[x] = not(ce.val(x.X))
		case token.SUB:
			ce.vals[x] = "(- " + ce.val(x.X) + ")"
		default:
			unsup("closure: unary %v", x.Op)
		}
	case *ssa.BinOp:
		// reuse the main translator's operator table through a temporary binding
		sub := &fnTrans{vc: vc, fn: ce.fn, vals: map[ssa.Value]string{x.X: ce.val(x.X), x.Y: ce.val(x.Y)}, site: map[string]int{}, locs: map[ssa.Value]*Loc{}}
		sub.curBlock = x.Block()
		sub.reach = map[int]string{x.Block().Index: "true"}
		before := len(vc.obls)
		ce.vals[x] = sub.binop(x, "true")
		vc.obls = vc.obls[:before] // division checks inside predicates are not obligations of the caller
	case *ssa.Field:
		ce.vals[x] = vc.sorts.structGet(x.X.Type(), x.Field, ce.val(x.X))
	case *ssa.ChangeType:
		ce.vals[x] = ce.val(x.X)
	case *ssa.Convert:
		if vc.sorts.sortOf(x.X.Type()) == vc.sorts.sortOf(x.Type()) {
			ce.vals[x] = ce.val(x.X)
		} else {
			unsup("closure: conversion %v -> %v", x.X.Type(), x.Type())
		}
	case *ssa.Call:
		ce.call(x)
	default:
		unsup("closure %s: instruction %T outside the term-mode subset", ce.fn.Name(), ins)
	}
}

func (ce *closEval) call(x *ssa.Call) {
	ft := ce.ft
	vc := ft.vc
	c := &x.Call
	if b, ok := c.Value.(*ssa.Builtin); ok {
		switch b.Name() {
		case "len":
			a := c.Args[0]
			switch a.Type().Underlying().(type) {
			case *types.Basic:
				ce.vals[x] = "(slen " + ce.val(a) + ")"
				return
			case *types.Slice:
				ce.vals[x] = "(s-len " + ce.val(a) + ")"
				return
			}
		}
		unsup("closure: builtin %s", b.Name())
	}
	key, _ := ft.calleeKey(c)
	var args []TV
	for _, a := range c.Args {
		args = append(args, TV{ce.val(a), a.Type()})
	}
	if nativeModel(key) {
		ce.vals[x] = ft.native(key, args)
		return
	}
	if key == "cmp.Compare" || key == "strings.Compare" {
		a, b := args[0], args[1]
		var lt string
		if isString(a.Ty) {
			lt = "(slt " + a.T + " " + b.T + ")"
		} else if isInteger(a.Ty) {
			lt = "(< " + a.T + " " + b.T + ")"
		} else {
			unsup("closure: cmp.Compare on %v", a.Ty)
		}
		ce.vals[x] = ite(lt, "(- 1)", ite(eq(a.T, b.T), "0", "1"))
		return
	}
	if fc := vc.P.cs.Funcs[key]; fc != nil && fc.Pure {
		ce.vals[x] = vc.pureApp(fc, args).T
		return
	}
	if sig, ok := c.Value.Type().Underlying().(*types.Signature); ok && key != "" && effectFree(key) && deterministicPkg(key) && sig.Results().Len() == 1 {
		// a deterministic library function of value arguments: an uninterpreted function (same symbol as in straight-line code)
		rs := vc.sorts.sortOf(sig.Results().At(0).Type())
		valueOnly := rs == "Str" || rs == "Int" || rs == "Bool"
		var as, ts []string
		for _, a := range args {
			s := vc.sorts.sortOf(a.Ty)
			if s != "Str" && s != "Int" && s != "Bool" {
				valueOnly = false
			}
			as = append(as, s)
			ts = append(ts, a.T)
		}
		if valueOnly {
			vc.assumed["effect-free (no contract): "+key] = true
			ce.vals[x] = vc.detUF(key, 0, as, ts, rs)
			return
		}
	}
	unsup("closure %s: call to %s (only native string predicates, cmp.Compare and pure functions under contract are allowed)", ce.fn.Name(), fmt.Sprint(key))
}
