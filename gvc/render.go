package main

import (
	"fmt"
	"os"
	"os/exec"
	"path/filepath"
	"sort"
	"strings"
)

// loadRendered: run the real generator (the fixture module replaces the gleece module with the repository under
// check) to render the routes file of every engine into fixtures/fxproj/out/<engine>, then load those packages.
func loadRendered(o *runOpts, cs *ContractSet, needed map[string]bool) (*Prog, error) {
	dir := filepath.Join(o.verif, "fixtures", "fxproj")
	cmd := exec.Command("go", "test", "-vet=off", "-count=1", "-run", "^TestRender$", ".")
	cmd.Dir = dir
	cmd.Env = append(os.Environ(), "GOFLAGS=-mod=mod", "GOPROXY=off")
	out, err := cmd.CombinedOutput()
	if err != nil {
		return nil, fmt.Errorf("%v: %s", err, truncate(string(out), 2000))
	}
	var patterns []string
	for p := range needed {
		patterns = append(patterns, p)
	}
	sort.Strings(patterns)
	prog, err := loadProgAt(dir, cs, patterns)
	if err != nil {
		return nil, err
	}
	if len(prog.loadErrs) > 0 {
		return nil, fmt.Errorf("rendered packages do not type-check: %s", strings.Join(prog.loadErrs, "; "))
	}
	return prog, nil
}
