package main

// Native model of libopenapi's ordered map (github.com/pb33f/libopenapi/orderedmap.Map[K,V], a struct embedding
// *github.com/pb33f/ordered-map/v2.OrderedMap[K,V]). Only the abstract key/value content is modelled (insertion
// order is not): New is a fresh empty map, Set stores, Get looks up. The same heap components as for a Go
// map[K]V are used, keyed by the reference of the *OrderedMap object. Assumed, listed in evidence.

import (
	"fmt"
	"go/types"
	"strings"

	"golang.org/x/tools/go/ssa"
)

const (
	omNewKey = "github.com/pb33f/libopenapi/orderedmap.New"
	omPkg    = "github.com/pb33f/ordered-map/v2"
	omWrap   = "github.com/pb33f/libopenapi/orderedmap"
)

func isOmKey(key string) bool {
	switch key {
	case omNewKey, omPkg + ".OrderedMap.Set", omPkg + ".OrderedMap.Get", omPkg + ".OrderedMap.Len":
		return true
	}
	return false
}

// omMap: the abstract map type of a *OrderedMap[K,V] (or nil).
func omMap(t types.Type) *types.Map {
	t = types.Unalias(t)
	if p, ok := t.(*types.Pointer); ok {
		t = types.Unalias(p.Elem())
	}
	n, ok := t.(*types.Named)
	if !ok || n.Obj().Pkg() == nil || n.Obj().Pkg().Path() != omPkg || n.Obj().Name() != "OrderedMap" {
		return nil
	}
	ta := n.TypeArgs()
	if ta == nil || ta.Len() != 2 {
		return nil
	}
	return types.NewMap(ta.At(0), ta.At(1))
}

// omWrapper: for *orderedmap.Map[K,V] returns the struct type and the index of its embedded OrderedMap field.
func omWrapper(t types.Type) (types.Type, int, *types.Map) {
	t = types.Unalias(t)
	p, ok := t.(*types.Pointer)
	if !ok {
		return nil, 0, nil
	}
	el := types.Unalias(p.Elem())
	n, ok := el.(*types.Named)
	if !ok || n.Obj().Pkg() == nil || n.Obj().Pkg().Path() != omWrap || n.Obj().Name() != "Map" {
		return nil, 0, nil
	}
	st, ok := n.Underlying().(*types.Struct)
	if !ok {
		return nil, 0, nil
	}
	for i := 0; i < st.NumFields(); i++ {
		if m := omMap(st.Field(i).Type()); m != nil {
			return el, i, m
		}
	}
	return nil, 0, nil
}

// mapLike resolves a contract expression of map, *OrderedMap or *orderedmap.Map type to (reference term, map type).
func (env *Env) mapLike(v TV) (string, *types.Map, bool) {
	if m, ok := types.Unalias(v.Ty).Underlying().(*types.Map); ok {
		return v.T, m, true
	}
	if m := omMap(v.Ty); m != nil {
		return v.T, m, true
	}
	if el := msElem(v.Ty); el != nil {
		return msRef(v.T), msMap(el), true
	}
	if st, i, m := omWrapper(v.Ty); m != nil {
		// nil wrapper: the field load yields some value; guard with the wrapper's nil-ness
		inner := sel(env.vc.get(env.heap, env.vc.compField(st, i)), v.T)
		return ite("(= "+v.T+" 0)", "0", inner), m, true
	}
	return "", nil, false
}

func (ft *fnTrans) omWrites(key string, c *ssa.CallCommon) []string {
	vc := ft.vc
	switch key {
	case omNewKey:
		res := c.Signature().Results().At(0).Type()
		st, i, m := omWrapper(res)
		if m == nil {
			return []string{compTop}
		}
		return []string{compTop, vc.compField(st, i), vc.compMapDom(m), vc.compMapVal(m)}
	case omPkg + ".OrderedMap.Set":
		if m := omMap(c.Args[0].Type()); m != nil {
			return []string{vc.compMapDom(m), vc.compMapVal(m)}
		}
	}
	return nil
}

// omCall translates a call of the modelled ordered-map API. Returns false when the call is not one of them.
func (ft *fnTrans) omCall(x ssa.Value, key string, c *ssa.CallCommon, h *Heap, reach string) bool {
	if !isOmKey(key) {
		return false
	}
	vc := ft.vc
	vc.assumed["libopenapi ordered map modelled as an abstract key/value map (New = empty, Set = store, Get = lookup; insertion order not modelled)"] = true
	switch key {
	case omNewKey:
		res := c.Signature().Results().At(0).Type()
		st, i, m := omWrapper(res)
		if m == nil {
			unsup("orderedmap.New of %v", res)
		}
		inner := ft.newRef(h, "omap")
		d := vc.compMapDom(m)
		vc.set(h, d, sto(vc.get(*h, d), inner, fmt.Sprintf("((as const (Array %s Bool)) false)", vc.sorts.sortOf(m.Key()))))
		outer := ft.newRef(h, "omapw")
		f := vc.compField(st, i)
		vc.set(h, f, sto(vc.get(*h, f), outer, inner))
		ft.vals[x] = outer
		return true
	case omPkg + ".OrderedMap.Set":
		m := omMap(c.Args[0].Type())
		if m == nil {
			unsup("OrderedMap.Set on %v", c.Args[0].Type())
		}
		mt, k, v := ft.val(c.Args[0]), ft.val(c.Args[1]), ft.val(c.Args[2])
		ft.safe("nil", reach, "(not (= "+mt+" 0))", "Set on a nil ordered map", c.Pos())
		d, vv := vc.compMapDom(m), vc.compMapVal(m)
		ft.frameCheck(d, mt, ft.isFreshRef(mt))
		oldDom := sel(sel(vc.get(*h, d), mt), k)
		oldVal := ite(oldDom, sel(sel(vc.get(*h, vv), mt), k), vc.sorts.zero(m.Elem(), vc.lits))
		if x != nil {
			ov := vc.define(nameOr(x, "omset")+".old", vc.sorts.sortOf(m.Elem()), oldVal)
			op := vc.define(nameOr(x, "omset")+".had", "Bool", oldDom)
			ft.tuples[x] = []string{ov, op}
		}
		vc.set(h, d, sto(vc.get(*h, d), mt, sto(sel(vc.get(*h, d), mt), k, "true")))
		vc.set(h, vv, sto(vc.get(*h, vv), mt, sto(sel(vc.get(*h, vv), mt), k, v)))
		return true
	case omPkg + ".OrderedMap.Get":
		m := omMap(c.Args[0].Type())
		if m == nil {
			unsup("OrderedMap.Get on %v", c.Args[0].Type())
		}
		mt, k := ft.val(c.Args[0]), ft.val(c.Args[1])
		ft.safe("nil", reach, "(not (= "+mt+" 0))", "Get on a nil ordered map", c.Pos())
		dom := sel(sel(vc.get(*h, vc.compMapDom(m)), mt), k)
		val := ite(dom, sel(sel(vc.get(*h, vc.compMapVal(m)), mt), k), vc.sorts.zero(m.Elem(), vc.lits))
		okc := vc.define(nameOr(x, "omget")+".ok", "Bool", dom)
		v := vc.define(nameOr(x, "omget")+".v", vc.sorts.sortOf(m.Elem()), val)
		ft.assumeWF(v, m.Elem(), *h)
		ft.tuples[x] = []string{v, okc}
		return true
	case omPkg + ".OrderedMap.Len":
		n := vc.fresh(nameOr(x, "omlen"), "Int")
		vc.assume("(>= " + n + " 0)")
		ft.vals[x] = n
		return true
	}
	return false
}

var _ = strings.HasPrefix
