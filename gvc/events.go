package main

import (
	"fmt"
	"sort"
	"strings"

	"golang.org/x/tools/go/ssa"
)

// checkEventsClosed: the ghost-event discipline is only sound if every function that can cause an event says so.
// For every non-test function of the repository: if its body statically calls a function whose contract emits
// (or may emit) an event, the function itself must be under contract and declare that event.
// One obligation per repository function that calls an emitter; it is decided syntactically (goal true/false).
func checkEventsClosed(p *Prog, gc GlobalCheck) *VC {
	vc := newVC(p, "events")
	vc.props = gc.Props
	cs := p.cs
	declared := func(fc *FuncContract) map[string]bool {
		m := map[string]bool{}
		for _, e := range fc.Emits {
			m[e.Event] = true
		}
		for _, e := range fc.MayEmit {
			m[e] = true
		}
		return m
	}
	// static call graph over repository functions (by contract key) for the `local` event rule
	calls := map[string]map[string]bool{}
	for fn := range ssaAllFunctions(p) {
		if fn.Pkg == nil || !strings.HasPrefix(fn.Pkg.Pkg.Path(), modulePath) {
			continue
		}
		owner := fn
		for owner.Parent() != nil {
			owner = owner.Parent()
		}
		k := funcKey(owner)
		for _, b := range fn.Blocks {
			for _, ins := range b.Instrs {
				if call, ok := ins.(ssa.CallInstruction); ok {
					ck, _ := (&fnTrans{vc: vc}).calleeKey(call.Common())
					if ck != "" {
						if calls[k] == nil {
							calls[k] = map[string]bool{}
						}
						calls[k][ck] = true
					}
				}
			}
		}
	}
	mentions := func(fc *FuncContract, ev string) bool {
		for _, e := range fc.Emits {
			if e.Event == ev {
				return true
			}
		}
		for _, e := range fc.MayEmit {
			if e == ev {
				return true
			}
		}
		for _, cl := range append(append([]Clause{}, fc.Ensures...), fc.Requires...) {
			if strings.Contains(cl.Src, ev) {
				return true
			}
		}
		return false
	}
	// reachedByMentioner[ev][f]: f is statically reachable from a function whose contract mentions ev
	reachedBy := func(ev string) map[string]bool {
		seen := map[string]bool{}
		var stack []string
		for k, fc := range cs.Funcs {
			if !fc.Extern && mentions(fc, ev) {
				stack = append(stack, k)
			}
		}
		for len(stack) > 0 {
			k := stack[len(stack)-1]
			stack = stack[:len(stack)-1]
			for c := range calls[k] {
				if !seen[c] {
					seen[c] = true
					stack = append(stack, c)
				}
			}
		}
		return seen
	}
	reachCache := map[string]map[string]bool{}
	type finding struct{ fn, callee, event string }
	var names []string
	results := map[string][]finding{}
	ft := &fnTrans{vc: vc}
	for fn := range ssaAllFunctions(p) {
		if fn.Pkg == nil || !strings.HasPrefix(fn.Pkg.Pkg.Path(), modulePath) || fn.Synthetic != "" {
			continue
		}
		path := fn.Pkg.Pkg.Path()
		if strings.Contains(path, "/test/") || strings.HasSuffix(path, "/test") || strings.Contains(path, "/e2e") {
			continue
		}
		if pos := fn.Pos(); pos.IsValid() && strings.HasSuffix(p.fset.Position(pos).Filename, "_test.go") {
			continue
		}
		// attribute closures to their outermost parent
		owner := fn
		for owner.Parent() != nil {
			owner = owner.Parent()
		}
		key := funcKey(owner)
		own := map[string]bool{}
		if fc := cs.Funcs[key]; fc != nil {
			own = declared(fc)
		}
		for _, b := range fn.Blocks {
			for _, ins := range b.Instrs {
				call, ok := ins.(ssa.CallInstruction)
				if !ok {
					continue
				}
				ck, _ := ft.calleeKey(call.Common())
				cfc := cs.Funcs[ck]
				if cfc == nil {
					continue
				}
				for ev := range declared(cfc) {
					short := strings.TrimPrefix(key, modulePath+"/")
					if _, seen := results[short]; !seen {
						names = append(names, short)
						results[short] = nil
					}
					if !own[ev] {
						if ed := cs.Events[ev]; ed != nil && ed.Local {
							// a local event matters only below functions whose contracts talk about it
							if reachCache[ev] == nil {
								reachCache[ev] = reachedBy(ev)
							}
							if !reachCache[ev][key] {
								continue
							}
						}
						results[short] = append(results[short], finding{short, ck, ev})
					}
				}
			}
		}
	}
	sort.Strings(names)
	for _, n := range names {
		goal := "true"
		src := "every event caused by a callee is declared (emits/mayemit) in the contract of " + n
		if len(results[n]) > 0 {
			goal = "false"
			f := results[n][0]
			src = fmt.Sprintf("%s calls %s which causes event %s, but has no contract declaring it", n, strings.TrimPrefix(f.callee, modulePath+"/"), f.event)
		}
		vc.oblige("closed", "closed."+n, "true", goal, src, 0)
	}
	return vc
}

func ssaAllFunctions(p *Prog) map[*ssa.Function]bool {
	out := map[*ssa.Function]bool{}
	var visit func(fn *ssa.Function)
	visit = func(fn *ssa.Function) {
		if fn == nil || out[fn] {
			return
		}
		out[fn] = true
		for _, an := range fn.AnonFuncs {
			visit(an)
		}
	}
	for _, pkg := range p.ssaProg.AllPackages() {
		if !strings.HasPrefix(pkg.Pkg.Path(), modulePath) {
			continue
		}
		for _, m := range pkg.Members {
			switch x := m.(type) {
			case *ssa.Function:
				visit(x)
			case *ssa.Type:
				ms := p.ssaProg.MethodSets.MethodSet(x.Type())
				for i := 0; i < ms.Len(); i++ {
					visit(p.ssaProg.MethodValue(ms.At(i)))
				}
				pms := p.ssaProg.MethodSets.MethodSet(typesNewPointer(x.Type()))
				for i := 0; i < pms.Len(); i++ {
					visit(p.ssaProg.MethodValue(pms.At(i)))
				}
			}
		}
	}
	return out
}
