package main

import (
	"fmt"
	"sort"
	"strings"

	"golang.org/x/tools/go/ssa"
)

// checkEventsClosed: the ghost-event discipline is only sound if every function that can cause an event says so.
// For every non-test function of the repository: if its body statically calls a function whose contract emits
// (or may emit) an event, the function itself must be under contract and declare that event.
// One obligation per repository function that calls an emitter; it is decided syntactically (goal true/false).
func checkEventsClosed(p *Prog, gc GlobalCheck) *VC {
	vc := newVC(p, "events")
	vc.props = gc.Props
	cs := p.cs
	declared := func(fc *FuncContract) map[string]bool {
		m := map[string]bool{}
		for _, e := range fc.Emits {
			m[e.Event] = true
		}
		for _, e := range fc.MayEmit {
			m[e] = true
		}
		return m
	}
	type finding struct{ fn, callee, event string }
	var names []string
	results := map[string][]finding{}
	ft := &fnTrans{vc: vc}
	for fn := range ssaAllFunctions(p) {
		if fn.Pkg == nil || !strings.HasPrefix(fn.Pkg.Pkg.Path(), modulePath) || fn.Synthetic != "" {
			continue
		}
		path := fn.Pkg.Pkg.Path()
		if strings.Contains(path, "/test/") || strings.HasSuffix(path, "/test") || strings.Contains(path, "/e2e") {
			continue
		}
		if pos := fn.Pos(); pos.IsValid() && strings.HasSuffix(p.fset.Position(pos).Filename, "_test.go") {
			continue
		}
		// attribute closures to their outermost parent
		owner := fn
		for owner.Parent() != nil {
			owner = owner.Parent()
		}
		key := funcKey(owner)
		own := map[string]bool{}
		if fc := cs.Funcs[key]; fc != nil {
			own = declared(fc)
		}
		for _, b := range fn.Blocks {
			for _, ins := range b.Instrs {
				call, ok := ins.(ssa.CallInstruction)
				if !ok {
					continue
				}
				ck, _ := ft.calleeKey(call.Common())
				cfc := cs.Funcs[ck]
				if cfc == nil {
					continue
				}
				for ev := range declared(cfc) {
					short := strings.TrimPrefix(key, modulePath+"/")
					if _, seen := results[short]; !seen {
						names = append(names, short)
						results[short] = nil
					}
					if !own[ev] {
						results[short] = append(results[short], finding{short, ck, ev})
					}
				}
			}
		}
	}
	sort.Strings(names)
	for _, n := range names {
		goal := "true"
		src := "every event caused by a callee is declared (emits/mayemit) in the contract of " + n
		if len(results[n]) > 0 {
			goal = "false"
			f := results[n][0]
			src = fmt.Sprintf("%s calls %s which causes event %s, but has no contract declaring it", n, strings.TrimPrefix(f.callee, modulePath+"/"), f.event)
		}
		vc.oblige("closed", "closed."+n, "true", goal, src, 0)
	}
	return vc
}

func ssaAllFunctions(p *Prog) map[*ssa.Function]bool {
	out := map[*ssa.Function]bool{}
	var visit func(fn *ssa.Function)
	visit = func(fn *ssa.Function) {
		if fn == nil || out[fn] {
			return
		}
		out[fn] = true
		for _, an := range fn.AnonFuncs {
			visit(an)
		}
	}
	for _, pkg := range p.ssaProg.AllPackages() {
		if !strings.HasPrefix(pkg.Pkg.Path(), modulePath) {
			continue
		}
		for _, m := range pkg.Members {
			switch x := m.(type) {
			case *ssa.Function:
				visit(x)
			case *ssa.Type:
				ms := p.ssaProg.MethodSets.MethodSet(x.Type())
				for i := 0; i < ms.Len(); i++ {
					visit(p.ssaProg.MethodValue(ms.At(i)))
				}
				pms := p.ssaProg.MethodSets.MethodSet(typesNewPointer(x.Type()))
				for i := 0; i < pms.Len(); i++ {
					visit(p.ssaProg.MethodValue(pms.At(i)))
				}
			}
		}
	}
	return out
}
