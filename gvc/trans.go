package main

// SSA -> verification conditions for one function under contract.

import (
	"os"
	"fmt"
	"go/ast"
	"go/constant"
	"go/token"
	"go/types"
	"sort"
	"strings"

	"golang.org/x/tools/go/ssa"
)

type locKind int

const (
	lkField locKind = iota
	lkElem
	lkCell
	lkGlobal
)

type pathStep struct {
	st    types.Type // struct type
	field int
}

type Loc struct {
	kind  locKind
	st    types.Type
	field int
	ref   string
	idx   string
	elem  types.Type
	g     *ssa.Global
	path  []pathStep
	ty    types.Type
}

type loopInfo struct {
	header  *ssa.BasicBlock
	blocks  map[int]bool
	ordinal int
	backs   []*ssa.BasicBlock
	writes  map[string]bool
	all     bool // contains a havoc-all call
	rangeIx *ssa.Phi
	phiTerm map[*ssa.Phi]string
	heapAt  Heap
	spec    *LoopSpec
}

type nameDef struct {
	val   ssa.Value
	block *ssa.BasicBlock
	order int
}

type fnTrans struct {
	vc      *VC
	fn      *ssa.Function
	fc      *FuncContract
	vals    map[ssa.Value]string
	tuples  map[ssa.Value][]string
	locs    map[ssa.Value]*Loc
	heapOut map[int]Heap
	reach   map[int]string
	edge    map[[2]int]string
	loops   map[int]*loopInfo // by header index
	names   map[string][]nameDef
	top0    string
	entry   Heap
	site    map[string]int
	modItems []modItem
	pkg     *types.Package
	rangeSt map[ssa.Value]*rangeState
	curBlock *ssa.BasicBlock
}

type rangeState struct {
	comp   string
	isMap  bool
	mapTy  *types.Map
	x      string
}

type modItem struct {
	comp string // component name
	ref  string // "" = any ref
	src  string
}

func recvName(t types.Type) string {
	t = types.Unalias(t)
	if p, ok := t.(*types.Pointer); ok {
		t = types.Unalias(p.Elem())
	}
	if n, ok := t.(*types.Named); ok {
		return n.Obj().Name()
	}
	return t.String()
}

// contract key of an SSA function
func funcKey(fn *ssa.Function) string {
	if fn == nil {
		return ""
	}
	if o := fn.Origin(); o != nil {
		fn = o
	}
	if fn.Pkg == nil && fn.Object() == nil {
		return fn.String()
	}
	var pkgPath string
	if fn.Pkg != nil {
		pkgPath = fn.Pkg.Pkg.Path()
	} else if fn.Object() != nil && fn.Object().Pkg() != nil {
		pkgPath = fn.Object().Pkg().Path()
	}
	if fn.Signature.Recv() != nil {
		return pkgPath + "." + recvName(fn.Signature.Recv().Type()) + "." + fn.Name()
	}
	return pkgPath + "." + fn.Name()
}

func (ft *fnTrans) siteName(kind string) string {
	ft.site[kind]++
	return fmt.Sprintf("%s@%d", kind, ft.site[kind])
}

// ---------------- entry point ----------------

func translateFunc(p *Prog, fn *ssa.Function, fc *FuncContract) (vc *VC) {
	name := strings.TrimPrefix(funcKey(fn), modulePath+"/")
	vc = newVC(p, name)
	vc.props = fc.Props
	vc.opaque = fc.Opaque
	defer func() {
		if r := recover(); r != nil {
			if se, ok := r.(specErr); ok {
				vc.unsupported("contract-stale: %s", se.msg)
				return
			}
			if ue, ok := r.(unsupErr); ok {
				vc.unsupported("out-of-subset: %s", ue.msg)
				return
			}
			panic(r)
		}
	}()
	ft := &fnTrans{vc: vc, fn: fn, fc: fc, vals: map[ssa.Value]string{}, tuples: map[ssa.Value][]string{}, locs: map[ssa.Value]*Loc{},
		heapOut: map[int]Heap{}, reach: map[int]string{}, edge: map[[2]int]string{}, loops: map[int]*loopInfo{},
		names: map[string][]nameDef{}, site: map[string]int{}, rangeSt: map[ssa.Value]*rangeState{}}
	if fn.Pkg != nil {
		ft.pkg = fn.Pkg.Pkg
	} else if fn.Object() != nil {
		ft.pkg = fn.Object().Pkg()
	}
	ft.run()
	return vc
}

type unsupErr struct{ msg string }

func unsup(format string, a ...any) {
	panic(unsupErr{fmt.Sprintf(format, a...)})
}

func (ft *fnTrans) run() {
	vc, fn := ft.vc, ft.fn
	if len(fn.Blocks) == 0 {
		unsup("function has no body")
	}
	ft.entry = Heap{m: map[string]string{}, epoch: 0}
	ft.top0 = vc.get(ft.entry, compTop)
	// ghost event components exist from the start so that heap-wide havocs can preserve them
	for _, name := range sortedKeys(vc.P.cs.Events) {
		if vc.P.typesPkg(vc.P.cs.Events[name].Pkg) != nil {
			vc.evComps(name)
		}
	}
	// parameters
	for _, p := range fn.Params {
		n := q("p:" + p.Name())
		vc.global("param:"+p.Name(), fmt.Sprintf("(declare-const %s %s)", n, vc.sorts.sortOf(p.Type())))
		ft.vals[p] = n
		for _, f := range ft.wfFacts(n, p.Type(), ft.top0, 2) {
			vc.assume(f)
		}
	}
	for _, fv := range fn.FreeVars {
		n := q("fv:" + fv.Name())
		vc.global("fv:"+fv.Name(), fmt.Sprintf("(declare-const %s %s)", n, vc.sorts.sortOf(fv.Type())))
		ft.vals[fv] = n
	}
	// assumed facts about the standard library (axioms of the `common` contract file) are always available
	if vc.P.typesPkg(modulePath+"/common") != nil {
		vc.emitAxioms(modulePath + "/common")
	}
	// package initialiser: verified for its first (only effective) execution
	if fn.Synthetic == "package initializer" && fn.Pkg != nil {
		if g, ok := fn.Pkg.Members["init$guard"].(*ssa.Global); ok {
			vc.assume(not(vc.get(ft.entry, vc.compGlobal(g))))
			vc.assumed["package initialiser verified for its first execution (init guard false on entry)"] = true
		}
	}
	ft.collectNames()
	ft.findLoops()
	// package invariants: assumed on entry of every function of the package (the initialiser establishes them)
	isInit := fn.Synthetic == "package initializer"
	if ft.pkg != nil && !isInit {
		ienv := ft.envAt(ft.entry, nil, nil)
		for _, inv := range vc.P.cs.PkgInvs[ft.pkg.Path()] {
			t, err := ienv.Bool(inv.Expr)
			if err != nil {
				panic(specErr{fmt.Sprintf("pkginvariant %q: %v", inv.Src, err)})
			}
			vc.assume(t)
			vc.assumed["package invariant "+inv.Name+" (established by the package initialiser, re-established by every function under contract whose frame contains a package variable; writers checked to be under contract)"] = true
		}
	}
	if isInit && ft.pkg != nil && len(vc.P.cs.PkgInvs[ft.pkg.Path()]) > 0 {
		ft.checkInvariantWriters()
	}
	// preconditions
	penv := ft.envAt(ft.entry, nil, nil)
	entryPos := len(vc.lines)
	var reqTerms []string
	for _, r := range ft.fc.Requires {
		t, err := penv.Bool(r.Expr)
		if err != nil {
			panic(specErr{fmt.Sprintf("requires %q: %v", r.Src, err)})
		}
		vc.assume(t)
		reqTerms = append(reqTerms, t)
	}
	// modifies items (evaluated in the entry state)
	ft.modItems = ft.evalModifies(ft.fc, penv)
	// vacuity guard: the precondition must be satisfiable
	o := vc.oblige("cover", "cover.pre", "true", "true", "precondition satisfiable", ft.fc.Line)
	o.Cover = true

	order := ft.rpo()
	for _, b := range order {
		ft.block(b)
	}
	// loop back-edge obligations
	var hdrs []int
	for h := range ft.loops {
		hdrs = append(hdrs, h)
	}
	sort.Ints(hdrs)
	for _, h := range hdrs {
		ft.loopStep(ft.loops[h])
	}
	// candidate models of failed obligations can be run on the real code when the inputs are plain values
	vc.replayGlobalsFrom = len(vc.globals)
	ft.buildReplayPlan(entryPos, reqTerms)
	for _, ob := range vc.obls {
		ob.plan = vc.replay
	}
}

// ---------------- names for invariants ----------------

func (ft *fnTrans) collectNames() {
	order := 0
	pendingLit := ""
	var pendingTy types.Type
	for _, b := range ft.fn.Blocks {
		for _, ins := range b.Instrs {
			order++
			switch x := ins.(type) {
			case *ssa.DebugRef:
				if id, ok := x.Expr.(*ast.Ident); ok && !x.IsAddr {
					ft.names[id.Name] = append(ft.names[id.Name], nameDef{x.X, b, order})
					// `v := T{...}` of map/slice type: go/ssa records the declaration as `v is nil` and the
					// literal separately; the literal's value is what v denotes from here on
					pendingLit = ""
					if c, isConst := x.X.(*ssa.Const); isConst && c.Value == nil {
						pendingLit, pendingTy = id.Name, c.Type()
					}
				} else if _, isLit := x.Expr.(*ast.CompositeLit); isLit && pendingLit != "" && !x.IsAddr && types.Identical(x.X.Type(), pendingTy) {
					ft.names[pendingLit] = append(ft.names[pendingLit], nameDef{x.X, b, order})
					pendingLit = ""
				}
			case *ssa.Phi:
				if x.Comment != "" {
					ft.names[x.Comment] = append(ft.names[x.Comment], nameDef{x, b, order})
				}
			case *ssa.Alloc:
				if x.Comment != "" {
					ft.names[x.Comment] = append(ft.names[x.Comment], nameDef{x, b, order})
				}
			}
		}
	}
}

// resolve a source-level variable name at the entry of block `at` (value flowing in; for phis of `at` itself see callers)
func (ft *fnTrans) resolveName(name string, at *ssa.BasicBlock, includeAt bool) (ssa.Value, bool) {
	for _, p := range ft.fn.Params {
		if p.Name() == name {
			// parameters that are reassigned become allocs or phis; prefer later defs if they dominate
			best, ok := ft.bestDef(name, at, includeAt)
			if ok {
				return best, true
			}
			return p, true
		}
	}
	for _, p := range ft.fn.FreeVars {
		if p.Name() == name {
			return p, true
		}
	}
	return ft.bestDef(name, at, includeAt)
}

func (ft *fnTrans) bestDef(name string, at *ssa.BasicBlock, includeAt bool) (ssa.Value, bool) {
	var best *nameDef
	for i := range ft.names[name] {
		d := &ft.names[name][i]
		if d.block == at {
			if !includeAt {
				// only phis of the header itself count as "at entry"
				if _, isPhi := d.val.(*ssa.Phi); !isPhi {
					continue
				}
			}
		} else if !d.block.Dominates(at) {
			continue
		}
		// the value itself must be defined in a block dominating `at`
		if ins, ok := d.val.(ssa.Instruction); ok {
			vb := ins.Block()
			if vb != at && !vb.Dominates(at) {
				continue
			}
		}
		if best == nil || best.block.Dominates(d.block) && (best.block != d.block || d.order > best.order) {
			best = d
		}
	}
	if best == nil {
		return nil, false
	}
	return best.val, true
}

// ---------------- CFG ----------------

func (ft *fnTrans) isBackEdge(from, to *ssa.BasicBlock) bool {
	return to.Dominates(from)
}

func (ft *fnTrans) rpo() []*ssa.BasicBlock {
	seen := map[int]bool{}
	var post []*ssa.BasicBlock
	var dfs func(b *ssa.BasicBlock)
	dfs = func(b *ssa.BasicBlock) {
		seen[b.Index] = true
		for _, s := range b.Succs {
			if ft.isBackEdge(b, s) || seen[s.Index] {
				continue
			}
			dfs(s)
		}
		post = append(post, b)
	}
	dfs(ft.fn.Blocks[0])
	for i, j := 0, len(post)-1; i < j; i, j = i+1, j-1 {
		post[i], post[j] = post[j], post[i]
	}
	return post
}

func (ft *fnTrans) findLoops() {
	for _, b := range ft.fn.Blocks {
		for _, s := range b.Succs {
			if ft.isBackEdge(b, s) {
				li := ft.loops[s.Index]
				if li == nil {
					li = &loopInfo{header: s, blocks: map[int]bool{s.Index: true}, writes: map[string]bool{}, phiTerm: map[*ssa.Phi]string{}}
					ft.loops[s.Index] = li
				}
				li.backs = append(li.backs, b)
				// natural loop body
				stack := []*ssa.BasicBlock{b}
				for len(stack) > 0 {
					x := stack[len(stack)-1]
					stack = stack[:len(stack)-1]
					if li.blocks[x.Index] {
						continue
					}
					li.blocks[x.Index] = true
					for _, p := range x.Preds {
						stack = append(stack, p)
					}
				}
			}
		}
	}
	var hs []int
	for h := range ft.loops {
		hs = append(hs, h)
	}
	// ordinal by source position of the header's first positioned instruction, falling back to block index
	sort.Slice(hs, func(i, j int) bool {
		pi, pj := ft.loopPos(ft.loops[hs[i]]), ft.loopPos(ft.loops[hs[j]])
		if pi != pj {
			return pi < pj
		}
		return hs[i] < hs[j]
	})
	for k, h := range hs {
		li := ft.loops[h]
		li.ordinal = k
		li.spec = ft.fc.Loops[k]
		// package invariants are invariants of every loop of the package's functions (the function itself never
		// stores to a package variable between calls that re-establish them, or it is checked at that point)
		if ft.pkg != nil && ft.fn.Synthetic != "package initializer" {
			if invs := ft.vc.P.cs.PkgInvs[ft.pkg.Path()]; len(invs) > 0 {
				merged := &LoopSpec{}
				if li.spec != nil {
					merged.Invariants = append(merged.Invariants, li.spec.Invariants...)
					merged.Decreases = li.spec.Decreases
				}
				merged.Invariants = append(merged.Invariants, invs...)
				li.spec = merged
			}
		}
		for _, ins := range li.header.Instrs {
			if phi, ok := ins.(*ssa.Phi); ok && phi.Comment == "rangeindex" {
				li.rangeIx = phi
			}
		}
	}
	for k := range ft.fc.Loops {
		if k >= len(hs) {
			// invariants are auxiliary: a loop that no longer exists needs none. The postconditions decide.
			ft.vc.assumed[fmt.Sprintf("note: contract of %s names loop %d but the function now has %d loops (clauses ignored)", ft.vc.funcName, k, len(hs))] = true
		}
	}
}

func (ft *fnTrans) loopPos(li *loopInfo) token.Pos {
	min := token.Pos(1 << 40)
	for bi := range li.blocks {
		for _, ins := range ft.fn.Blocks[bi].Instrs {
			if p := ins.Pos(); p.IsValid() && p < min {
				min = p
			}
		}
	}
	return min
}

// ---------------- well-formedness facts ----------------

func (ft *fnTrans) wfFacts(term string, t types.Type, top string, depth int) []string {
	t = types.Unalias(t)
	var out []string
	switch u := t.Underlying().(type) {
	case *types.Basic:
		if u.Info()&types.IsUnsigned != 0 {
			out = append(out, "(>= "+term+" 0)")
		}
	case *types.Slice:
		out = append(out, "(wf-slice "+term+")")
		if top != "" {
			out = append(out, "(< (s-base "+term+") "+top+")")
		}
		out = append(out, "(=> (= (s-base "+term+") 0) (= (s-cap "+term+") 0))")
	case *types.Pointer, *types.Map:
		out = append(out, "(>= "+term+" 0)")
		if top != "" {
			out = append(out, "(< "+term+" "+top+")")
		}
	case *types.Interface:
		out = append(out, "(>= (i-ref "+term+") 0)")
		out = append(out, "(>= (i-tag "+term+") 0)")
		out = append(out, "(=> (= (i-tag "+term+") 0) (= (i-ref "+term+") 0))")
		if msElem(t) != nil {
			// (set model: a non-nil Set value carries a set object)
			out = append(out, "(=> (= (i-ref "+term+") 0) (= (i-tag "+term+") 0))")
		}
		if top != "" {
			out = append(out, "(< (i-ref "+term+") "+top+")")
		}
	case *types.Struct:
		if depth > 0 {
			for i := 0; i < u.NumFields(); i++ {
				out = append(out, ft.wfFacts(ft.vc.sorts.structGet(t, i, term), u.Field(i).Type(), top, depth-1)...)
			}
		}
	}
	return out
}

func (ft *fnTrans) assumeWF(term string, t types.Type, h Heap) {
	for _, f := range ft.wfFacts(term, t, ft.vc.get(h, compTop), 2) {
		ft.vc.assume(f)
	}
}

// ---------------- environments for contract expressions ----------------

// envAt builds an Env for evaluating contract expressions at a program point.
// hdr != nil: loop-header context, phiBind gives terms for the header's phis.
func (ft *fnTrans) envAt(h Heap, hdr *loopInfo, phiBind map[*ssa.Phi]string) *Env {
	env := &Env{vc: ft.vc, pkg: ft.pkg, vars: map[string]TV{}, heap: h, top0: ft.top0}
	oldEnv := &Env{vc: ft.vc, pkg: ft.pkg, vars: map[string]TV{}, heap: ft.entry, top0: ft.top0}
	for _, p := range ft.fn.Params {
		tv := TV{ft.vals[p], p.Type()}
		oldEnv.vars[p.Name()] = tv
	}
	oldEnv.lookup = func(name string, e *Env) (TV, bool) { return TV{}, false }
	env.old = oldEnv
	if hdr != nil {
		// range-over-map loop: the Next instruction sits in the header block
		for _, ins := range hdr.header.Instrs {
			if nx, ok := ins.(*ssa.Next); ok {
				if r, ok := nx.Iter.(*ssa.Range); ok {
					if _, isMap := r.X.Type().Underlying().(*types.Map); isMap {
						comp := ft.rangeComp(r)
						env.seenOf = func(e *Env, key string) string { return sel(ft.vc.get(e.heap, comp), key) }
					}
				}
			}
		}
	}
	env.lookup = func(name string, e *Env) (TV, bool) {
		if hdr != nil {
			if name == "_n" || (strings.HasPrefix(name, "_n") && len(name) > 2 && name[2] >= '0' && name[2] <= '9') {
				li := hdr
				if len(name) > 2 {
					var k int
					fmt.Sscanf(name[2:], "%d", &k)
					li = nil
					for _, l := range ft.loops {
						if l.ordinal == k {
							li = l
						}
					}
				}
				if li == nil || li.rangeIx == nil {
					sfail("%s: no range-index loop", name)
				}
				var t string
				if li == hdr {
					t = phiBind[li.rangeIx]
				} else {
					t = ft.val(li.rangeIx)
				}
				return TV{"(+ " + t + " 1)", tInt}, true
			}
			if name == "_pos" {
				// the byte position a range-over-string loop has reached (start of the rune about to be decoded)
				if comp, _, ok := ft.stringRangeOf(hdr); ok {
					return TV{ft.vc.get(e.heap, comp), tInt}, true
				}
				sfail("_pos: not a range-over-string loop")
			}
			if name == "_s" {
				// the collection a range-over-slice loop iterates (an unnamed temporary in `range f()`)
				if coll := ft.rangedSlice(hdr); coll != nil {
					return TV{ft.val(coll), coll.Type()}, true
				}
				sfail("_s: not a range-over-slice loop")
			}
			for phi, t := range phiBind {
				if phi.Comment == name {
					return TV{t, phi.Type()}, true
				}
			}
			v, ok := ft.resolveName(name, hdr.header, false)
			if ok {
				if phi, isPhi := v.(*ssa.Phi); isPhi && phi.Block() == hdr.header {
					return TV{phiBind[phi], phi.Type()}, true
				}
				return ft.valueAsTV(v, e.heap, name), true
			}
			return TV{}, false
		}
		// function-level: parameters (and named results handled via results)
		for _, p := range ft.fn.Params {
			if p.Name() == name {
				return TV{ft.vals[p], p.Type()}, true
			}
		}
		for _, p := range ft.fn.FreeVars {
			if p.Name() == name {
				return TV{ft.vals[p], p.Type()}, true
			}
		}
		return TV{}, false
	}
	return env
}

// valueAsTV: an SSA value as a contract-level value. Address-taken locals (Alloc) denote their content.
func (ft *fnTrans) valueAsTV(v ssa.Value, h Heap, name string) TV {
	// (an Alloc that merely is the *value* of a variable - `schema := &T{...}`, comment "complit"/"new" - stays a pointer)
	if a, ok := v.(*ssa.Alloc); ok && a.Comment == name {
		elem := a.Type().(*types.Pointer).Elem()
		loc := ft.locOf(a)
		return TV{ft.load(loc, h), elem}
	}
	return TV{ft.val(v), v.Type()}
}

// ---------------- modifies ----------------

func (ft *fnTrans) evalModifies(fc *FuncContract, env *Env) []modItem {
	var out []modItem
	for _, m := range fc.Modifies {
		out = append(out, evalModItem(ft.vc, env, m)...)
	}
	return out
}

func evalModItem(vc *VC, env *Env, m Clause) []modItem {
	fail := func(msg string) { panic(specErr{fmt.Sprintf("modifies %q: %s", m.Src, msg)}) }
	e := m.Expr
	if pe, ok := e.(*ast.ParenExpr); ok {
		e = pe.X
	}
	anyRef := false
	if ce, ok := e.(*ast.CallExpr); ok {
		if id, ok := ce.Fun.(*ast.Ident); ok && id.Name == "any" && len(ce.Args) == 1 {
			anyRef = true
			e = ce.Args[0]
			// any(T.f) / any(pkg.T.f): component by type and field; any(T) / any(pkg.T): every field of struct type T
			tryType := func(x ast.Expr) (ty types.Type) {
				defer func() {
					if r := recover(); r != nil {
						if _, isSpec := r.(specErr); isSpec {
							ty = nil
							return
						}
						panic(r)
					}
				}()
				return env.typeOfExpr(x)
			}
			// any(elems([]T)) / any(elems(map[K]V)): every backing array / map of that type
			if ce2, ok := e.(*ast.CallExpr); ok {
				if id2, ok := ce2.Fun.(*ast.Ident); ok && id2.Name == "elems" && len(ce2.Args) == 1 {
					if ty := tryType(ce2.Args[0]); ty != nil {
						switch u := ty.Underlying().(type) {
						case *types.Slice:
							return []modItem{{comp: vc.compElems(u.Elem()), src: m.Src}}
						case *types.Map:
							return []modItem{{comp: vc.compMapDom(u), src: m.Src}, {comp: vc.compMapVal(u), src: m.Src}}
						}
					}
				}
			}
			if ty := tryType(e); ty != nil {
				if el := msElem(ty); el != nil {
					// any(mapset.Set[T]): the content of every modelled set of that element type
					return []modItem{{comp: vc.compMapDom(msMap(el)), src: m.Src}}
				}
				if st, ok := ty.Underlying().(*types.Struct); ok {
					var out []modItem
					for i := 0; i < st.NumFields(); i++ {
						out = append(out, modItem{comp: vc.compField(ty, i), src: m.Src})
					}
					return out
				}
			}
			if se, ok := e.(*ast.SelectorExpr); ok {
				if ty := tryType(se.X); ty != nil {
					st, ok := ty.Underlying().(*types.Struct)
					if !ok {
						fail("not a struct type")
					}
					for i := 0; i < st.NumFields(); i++ {
						if st.Field(i).Name() == se.Sel.Name {
							return []modItem{{comp: vc.compField(ty, i), src: m.Src}}
						}
					}
					fail("no such field")
				}
			}
		}
	}
	if ce, ok := e.(*ast.CallExpr); ok {
		if id, ok := ce.Fun.(*ast.Ident); ok && id.Name == "boxed" && len(ce.Args) == 1 {
			// boxed(v): the object behind the pointer boxed in interface argument v (type known statically at the call site)
			pid, ok := ce.Args[0].(*ast.Ident)
			if !ok {
				fail("boxed() needs a parameter name")
			}
			v, err := env.Expr(ce.Args[0])
			if err != nil {
				fail(err.Error())
			}
			ty, known := env.boxed[pid.Name]
			if !known {
				fail("the pointer boxed in " + pid.Name + " is not statically known at this call site")
			}
			ref := "(i-ref " + v.T + ")"
			if st, ok := ty.Underlying().(*types.Struct); ok {
				var out []modItem
				for i := 0; i < st.NumFields(); i++ {
					out = append(out, modItem{comp: vc.compField(ty, i), ref: ref, src: m.Src})
				}
				return out
			}
			return []modItem{{comp: vc.compCell(ty), ref: ref, src: m.Src}}
		}
		if id, ok := ce.Fun.(*ast.Ident); ok && id.Name == "cellof" && len(ce.Args) == 2 {
			// cellof(v, T): the cell of type T behind the pointer boxed in interface value v
			v, err := env.Expr(ce.Args[0])
			if err != nil {
				fail(err.Error())
			}
			var ty types.Type
			func() {
				defer func() {
					if r := recover(); r != nil {
						fail(fmt.Sprint(r))
					}
				}()
				ty = env.typeOfExpr(ce.Args[1])
			}()
			return []modItem{{comp: vc.compCell(ty), ref: "(i-ref " + v.T + ")", src: m.Src}}
		}
		if id, ok := ce.Fun.(*ast.Ident); ok && id.Name == "cells" && len(ce.Args) == 1 {
			// cells(T): every cell of type T (e.g. what an unmarshaller writes through an interface-boxed pointer)
			var ty types.Type
			func() {
				defer func() {
					if r := recover(); r != nil {
						fail(fmt.Sprint(r))
					}
				}()
				ty = env.typeOfExpr(ce.Args[0])
			}()
			if st, ok := ty.Underlying().(*types.Struct); ok {
				var out []modItem
				for i := 0; i < st.NumFields(); i++ {
					out = append(out, modItem{comp: vc.compField(ty, i), src: m.Src})
				}
				return out
			}
			return []modItem{{comp: vc.compCell(ty), src: m.Src}}
		}
	}
	if ce, ok := e.(*ast.CallExpr); ok {
		if id, ok := ce.Fun.(*ast.Ident); ok && id.Name == "elems" && len(ce.Args) == 1 {
			v, err := env.Expr(ce.Args[0])
			if err != nil {
				fail(err.Error())
			}
			switch u := types.Unalias(v.Ty).Underlying().(type) {
			case *types.Map:
				r := v.T
				if anyRef {
					r = ""
				}
				return []modItem{{comp: vc.compMapDom(u), ref: r, src: m.Src}, {comp: vc.compMapVal(u), ref: r, src: m.Src}}
			case *types.Slice:
				r := "(s-base " + v.T + ")"
				if anyRef {
					r = ""
				}
				return []modItem{{comp: vc.compElems(u.Elem()), ref: r, src: m.Src}}
			}
			if ref, u, ok := env.mapLike(v); ok {
				// ordered map modelled as an abstract map
				if anyRef {
					ref = ""
				}
				return []modItem{{comp: vc.compMapDom(u), ref: ref, src: m.Src}, {comp: vc.compMapVal(u), ref: ref, src: m.Src}}
			}
			fail("elems of non-map/slice")
		}
	}
	if se, ok := e.(*ast.StarExpr); ok {
		v, err := env.Expr(se.X)
		if err != nil {
			fail(err.Error())
		}
		pt, ok := types.Unalias(v.Ty).Underlying().(*types.Pointer)
		if !ok {
			fail("deref of non-pointer")
		}
		if st, ok := pt.Elem().Underlying().(*types.Struct); ok {
			var out []modItem
			for i := 0; i < st.NumFields(); i++ {
				out = append(out, modItem{comp: vc.compField(pt.Elem(), i), ref: v.T, src: m.Src})
			}
			return out
		}
		return []modItem{{comp: vc.compCell(pt.Elem()), ref: v.T, src: m.Src}}
	}
	if se, ok := e.(*ast.SelectorExpr); ok {
		v, err := env.Expr(se.X)
		if err != nil {
			fail(err.Error())
		}
		pt, ok := types.Unalias(v.Ty).Underlying().(*types.Pointer)
		if !ok {
			fail("field of non-pointer")
		}
		st, ok := pt.Elem().Underlying().(*types.Struct)
		if !ok {
			fail("field of non-struct")
		}
		for i := 0; i < st.NumFields(); i++ {
			if st.Field(i).Name() == se.Sel.Name {
				r := v.T
				if anyRef {
					r = ""
				}
				return []modItem{{comp: vc.compField(pt.Elem(), i), ref: r, src: m.Src}}
			}
		}
		fail("no such field")
	}
	// a package-level variable of the contract's package
	if id, ok := e.(*ast.Ident); ok && env.pkg != nil {
		if _, isVar := env.pkg.Scope().Lookup(id.Name).(*types.Var); isVar {
			if sp := vc.P.ssaProg.Package(env.pkg); sp != nil {
				if g, ok := sp.Members[id.Name].(*ssa.Global); ok {
					return []modItem{{comp: vc.compGlobal(g), src: m.Src}}
				}
			}
		}
	}
	// whole object
	v, err := env.Expr(e)
	if err != nil {
		fail(err.Error())
	}
	if pt, ok := types.Unalias(v.Ty).Underlying().(*types.Pointer); ok {
		if st, ok := pt.Elem().Underlying().(*types.Struct); ok {
			var out []modItem
			for i := 0; i < st.NumFields(); i++ {
				out = append(out, modItem{comp: vc.compField(pt.Elem(), i), ref: v.T, src: m.Src})
			}
			return out
		}
	}
	fail("unsupported modifies item")
	return nil
}

// frameCheck: a write to comp at ref must be allowed by the function's modifies clause or hit a fresh object.
func (ft *fnTrans) frameCheck(comp, ref string, fresh bool) {
	if fresh || strings.HasPrefix(comp, "$") || ft.fc.Havocs {
		return
	}
	if strings.HasPrefix(comp, "G:") {
		if ft.fn.Synthetic == "package initializer" {
			return // the initialiser initialises the package's variables
		}
		for _, m := range ft.modItems {
			if m.comp == comp {
				return
			}
		}
		ft.vc.oblige("frame", ft.siteName("frame"), ft.reach[ft.curBlock.Index], "false", "write to global "+comp+" not in modifies", 0)
		return
	}
	alts := []string{"(>= " + ref + " " + ft.top0 + ")"}
	for _, m := range ft.modItems {
		if m.comp == comp {
			if m.ref == "" {
				return
			}
			alts = append(alts, eq(ref, m.ref))
		}
	}
	ft.vc.oblige("frame", ft.siteName("frame"), ft.reach[ft.curBlock.Index], or(alts...), "write to "+comp+" outside modifies", 0)
}

// frameAssume: after a havoc of comp (loop head / call), refs allocated before `top` and not listed keep their value.
func (ft *fnTrans) frameAssume(comp, oldT, newT, top string, items []modItem) {
	if strings.HasPrefix(comp, "$") || strings.HasPrefix(comp, "G:") {
		return
	}
	var excl []string
	for _, m := range items {
		if m.comp == comp {
			if m.ref == "" {
				return
			}
			excl = append(excl, not(eq("r", m.ref)))
		}
	}
	cond := and(append([]string{"(<= 0 r)", "(< r " + top + ")"}, excl...)...)
	ft.vc.assume(fmt.Sprintf("(forall ((r Int)) (! (=> %s (= (select %s r) (select %s r))) :pattern ((select %s r))))", cond, newT, oldT, newT))
}

// ---------------- values ----------------

func (ft *fnTrans) val(v ssa.Value) string {
	if t, ok := ft.vals[v]; ok {
		return t
	}
	vc := ft.vc
	switch x := v.(type) {
	case *ssa.Const:
		return ft.constTerm(x)
	case *ssa.Function:
		n := q("fn:" + x.String())
		vc.global(n, fmt.Sprintf("(declare-const %s Int)\n(assert (> %s 0))", n, n))
		return n
	case *ssa.Global:
		unsup("address of global %s used as a value", x.Name())
	case *ssa.Builtin:
		unsup("builtin %s used as value", x.Name())
	}
	if _, ok := ft.locs[v]; ok {
		unsup("interior pointer %s (%s) used as a first-class value", v.Name(), v.Type())
	}
	unsup("value %s (%T) not translated", v.Name(), v)
	return ""
}

func (ft *fnTrans) constTerm(c *ssa.Const) string {
	vc := ft.vc
	if c.Value == nil {
		return vc.sorts.zero(c.Type(), vc.lits)
	}
	t := types.Unalias(c.Type())
	if b, ok := t.Underlying().(*types.Basic); ok {
		switch {
		case b.Info()&types.IsBoolean != 0:
			return fmt.Sprint(constant.BoolVal(c.Value))
		case b.Info()&types.IsInteger != 0:
			i, ok := constant.Int64Val(c.Value)
			if !ok {
				u, _ := constant.Uint64Val(c.Value)
				return fmt.Sprint(u)
			}
			return intLit(i)
		case b.Info()&types.IsString != 0:
			return vc.lits.str(constant.StringVal(c.Value))
		case b.Info()&types.IsFloat != 0:
			if i, ok := constant.Int64Val(constant.ToInt(c.Value)); ok && constant.ToInt(c.Value).Kind() == constant.Int {
				return "(float.of " + intLit(i) + ")"
			}
			n := q("floatlit:" + c.Value.ExactString())
			vc.global(n, fmt.Sprintf("(declare-const %s Float)", n))
			return n
		}
	}
	unsup("constant %v of type %v", c, c.Type())
	return ""
}

// ---------------- locations ----------------

func (ft *fnTrans) locOf(v ssa.Value) *Loc {
	if l, ok := ft.locs[v]; ok {
		return l
	}
	if g, ok := v.(*ssa.Global); ok {
		return &Loc{kind: lkGlobal, g: g, ty: g.Type().(*types.Pointer).Elem()}
	}
	pt, ok := types.Unalias(v.Type()).Underlying().(*types.Pointer)
	if !ok {
		unsup("locOf non-pointer %v", v.Type())
	}
	elem := pt.Elem()
	switch elem.Underlying().(type) {
	case *types.Struct:
		return &Loc{kind: lkField, st: elem, field: -1, ref: ft.val(v), ty: elem}
	case *types.Array:
		unsup("whole-array access through pointer")
	}
	return &Loc{kind: lkCell, elem: elem, ref: ft.val(v), ty: elem}
}

func (ft *fnTrans) compOfLoc(l *Loc) string {
	switch l.kind {
	case lkField:
		return ft.vc.compField(l.st, l.field)
	case lkElem:
		return ft.vc.compElems(l.elem)
	case lkCell:
		return ft.vc.compCell(l.elem)
	case lkGlobal:
		return ft.vc.compGlobal(l.g)
	}
	panic("bad loc")
}

func (ft *fnTrans) loadBase(l *Loc, h Heap) string {
	vc := ft.vc
	switch l.kind {
	case lkField:
		return sel(vc.get(h, vc.compField(l.st, l.field)), l.ref)
	case lkElem:
		return sel(sel(vc.get(h, vc.compElems(l.elem)), l.ref), l.idx)
	case lkCell:
		return sel(vc.get(h, vc.compCell(l.elem)), l.ref)
	case lkGlobal:
		return vc.get(h, vc.compGlobal(l.g))
	}
	panic("bad loc")
}

func (ft *fnTrans) load(l *Loc, h Heap) string {
	if l.kind == lkField && l.field < 0 {
		return loadObject(ft.vc, h, l.st, l.ref)
	}
	t := ft.loadBase(l, h)
	for _, s := range l.path {
		t = ft.vc.sorts.structGet(s.st, s.field, t)
	}
	return t
}

func (ft *fnTrans) isFreshRef(ref string) bool {
	return strings.HasPrefix(ref, "|alloc!")
}

func (ft *fnTrans) store(l *Loc, h *Heap, v string) {
	vc := ft.vc
	if l.kind == lkField && l.field < 0 {
		// whole-object store: every field
		st := l.st.Underlying().(*types.Struct)
		for i := 0; i < st.NumFields(); i++ {
			c := vc.compField(l.st, i)
			ft.frameCheck(c, l.ref, ft.isFreshRef(l.ref))
			vc.set(h, c, sto(vc.get(*h, c), l.ref, vc.sorts.structGet(l.st, i, v)))
		}
		return
	}
	// nested update along the path
	var build func(cur string, path []pathStep) string
	build = func(cur string, path []pathStep) string {
		if len(path) == 0 {
			return v
		}
		s := path[0]
		inner := vc.sorts.structGet(s.st, s.field, cur)
		return vc.sorts.structSet(s.st, s.field, cur, build(inner, path[1:]))
	}
	nv := build(ft.loadBase(l, *h), l.path)
	c := ft.compOfLoc(l)
	switch l.kind {
	case lkField, lkCell:
		ft.frameCheck(c, l.ref, ft.isFreshRef(l.ref))
		vc.set(h, c, sto(vc.get(*h, c), l.ref, nv))
	case lkElem:
		ft.frameCheck(c, l.ref, ft.isFreshRef(l.ref))
		cur := vc.get(*h, c)
		vc.set(h, c, sto(cur, l.ref, sto(sel(cur, l.ref), l.idx, nv)))
	case lkGlobal:
		ft.frameCheck(c, "", false)
		vc.set(h, c, nv)
	}
}

// ---------------- blocks ----------------

func (ft *fnTrans) block(b *ssa.BasicBlock) {
	vc := ft.vc
	ft.curBlock = b
	var h Heap
	li := ft.loops[b.Index]
	// incoming edges (non-back)
	var ins []heapEdge
	var conds []string
	var entryPreds []*ssa.BasicBlock
	for _, p := range b.Preds {
		if ft.isBackEdge(p, b) {
			continue
		}
		ec, ok := ft.edge[[2]int{p.Index, b.Index}]
		if !ok {
			continue // unreachable predecessor
		}
		ins = append(ins, heapEdge{ec, ft.heapOut[p.Index]})
		conds = append(conds, ec)
		entryPreds = append(entryPreds, p)
	}
	if b.Index == 0 {
		h = ft.entry.clone()
		ft.reach[0] = "true"
	} else {
		if len(ins) == 0 {
			// unreachable block
			ft.reach[b.Index] = "false"
			ft.heapOut[b.Index] = ft.entry.clone()
			return
		}
		h = vc.merge(ins)
		ft.reach[b.Index] = vc.define(fmt.Sprintf("reach.%d", b.Index), "Bool", or(conds...))
	}
	reach := ft.reach[b.Index]

	// phis
	phiIn := func(phi *ssa.Phi, preds []*ssa.BasicBlock) string {
		var def string
		for i := len(preds) - 1; i >= 0; i-- {
			p := preds[i]
			var v string
			for j, bp := range b.Preds {
				if bp == p {
					v = ft.val(phi.Edges[j])
				}
			}
			if def == "" {
				def = v
			} else {
				def = ite(ft.edge[[2]int{p.Index, b.Index}], v, def)
			}
		}
		return def
	}
	if li == nil {
		for _, ins := range b.Instrs {
			phi, ok := ins.(*ssa.Phi)
			if !ok {
				break
			}
			if _, isTuple := phi.Type().(*types.Tuple); isTuple {
				unsup("phi of tuple")
			}
			ft.vals[phi] = vc.define(phi.Name(), vc.sorts.sortOf(phi.Type()), phiIn(phi, entryPreds))
		}
	} else {
		ft.loopHead(li, b, &h, entryPreds, phiIn)
	}

	for _, ins := range b.Instrs {
		if _, ok := ins.(*ssa.Phi); ok {
			continue
		}
		ft.instr(ins, &h, reach)
	}
	ft.heapOut[b.Index] = h
}

func (ft *fnTrans) loopHead(li *loopInfo, b *ssa.BasicBlock, h *Heap, entryPreds []*ssa.BasicBlock, phiIn func(*ssa.Phi, []*ssa.BasicBlock) string) {
	vc := ft.vc
	reach := ft.reach[b.Index]
	if li.spec == nil || len(li.spec.Invariants) == 0 {
		// a loop without invariant: allowed (invariant "true") but recorded
		li.spec = &LoopSpec{}
	}
	// 1. invariants hold on entry
	initBind := map[*ssa.Phi]string{}
	var phis []*ssa.Phi
	for _, ins := range b.Instrs {
		phi, ok := ins.(*ssa.Phi)
		if !ok {
			break
		}
		phis = append(phis, phi)
		initBind[phi] = phiIn(phi, entryPreds)
	}
	envInit := ft.envAt(*h, li, initBind)
	for k, inv := range li.spec.Invariants {
		t, err := envInit.Bool(inv.Expr)
		if err != nil {
			panic(specErr{fmt.Sprintf("loop %d invariant %q: %v", li.ordinal, inv.Src, err)})
		}
		vc.oblige("inv.init", fmt.Sprintf("loop.%d.inv.%d.init", li.ordinal, k), reach, t, inv.Src, inv.Line)
	}
	// 2. havoc
	ft.computeLoopWrites(li)
	topBefore := vc.get(*h, compTop)
	if li.all {
		pre := h.clone()
		savedEv := map[string]string{}
		for c := range vc.comps {
			if strings.HasPrefix(c, "$ev:") && !li.writes[c] {
				savedEv[c] = vc.get(*h, c)
			}
		}
		vc.havocAll(h)
		for c, t := range savedEv {
			h.m[c] = t
		}
		// locals allocated before the loop and not written inside it keep their contents
		for v, r := range ft.vals {
			a, ok := v.(*ssa.Alloc)
			if !ok || a.Heap || li.blocks[a.Block().Index] {
				continue
			}
			for _, c := range ft.objectComps(a.Type().(*types.Pointer).Elem()) {
				if !li.writes[c] {
					vc.assume(eq(sel(vc.get(*h, c), r), sel(vc.get(pre, c), r)))
				}
			}
		}
	} else {
		for _, c := range sortedKeys(li.writes) {
			oldT := vc.get(*h, c)
			newT := vc.havoc(h, c)
			if c == compTop {
				vc.assume("(>= " + newT + " " + oldT + ")")
				continue
			}
			// objects allocated at function entry and outside modifies are unchanged w.r.t. the entry state
			ft.frameAssume(c, vc.get(ft.entry, c), newT, ft.top0, ft.modItems)
		}
	}
	_ = topBefore
	if !li.all {
		for _, c := range sortedKeys(li.writes) {
			vc.assumeClosed(*h, c)
		}
	}
	for _, phi := range phis {
		n := vc.fresh(phi.Name(), vc.sorts.sortOf(phi.Type()))
		ft.vals[phi] = n
		li.phiTerm[phi] = n
		ft.assumeWF(n, phi.Type(), *h)
	}
	// implicit invariant of range-over-slice loops: the hidden index starts at -1 and is incremented by one
	if li.rangeIx != nil && ft.isCanonicalRangeIndex(li) {
		vc.assume("(>= " + li.phiTerm[li.rangeIx] + " (- 1))")
	}
	// implicit invariant of range-over-string loops: the hidden byte position starts at 0, only grows, and never
	// passes the end of the string (next() advances it by the width of a rune that lies inside the string)
	if comp, str, ok := ft.stringRangeOf(li); ok {
		pos := vc.get(*h, comp)
		vc.assume(and("(<= 0 "+pos+")", "(<= "+pos+" (slen "+str+"))"))
	}
	li.heapAt = h.clone()
	// 3. assume invariants
	envHead := ft.envAt(*h, li, li.phiTerm)
	for _, inv := range li.spec.Invariants {
		t, err := envHead.Bool(inv.Expr)
		if err != nil {
			panic(specErr{fmt.Sprintf("loop %d invariant %q: %v", li.ordinal, inv.Src, err)})
		}
		vc.assume(implies(reach, t))
	}
}

func (ft *fnTrans) loopStep(li *loopInfo) {
	vc := ft.vc
	b := li.header
	for _, p := range li.backs {
		ec, ok := ft.edge[[2]int{p.Index, b.Index}]
		if !ok {
			continue
		}
		bind := map[*ssa.Phi]string{}
		for _, ins := range b.Instrs {
			phi, ok := ins.(*ssa.Phi)
			if !ok {
				break
			}
			for j, bp := range b.Preds {
				if bp == p {
					bind[phi] = ft.val(phi.Edges[j])
				}
			}
		}
		env := ft.envAt(ft.heapOut[p.Index], li, bind)
		for k, inv := range li.spec.Invariants {
			t, err := env.Bool(inv.Expr)
			if err != nil {
				panic(specErr{fmt.Sprintf("loop %d invariant %q: %v", li.ordinal, inv.Src, err)})
			}
			name := fmt.Sprintf("loop.%d.inv.%d.step", li.ordinal, k)
			if len(li.backs) > 1 {
				name += fmt.Sprintf(".b%d", p.Index)
			}
			vc.oblige("inv.step", name, ec, t, inv.Src, inv.Line)
		}
		if d := li.spec.Decreases; d != nil {
			headEnv := ft.envAt(li.heapAt, li, li.phiTerm)
			before, err1 := headEnv.Expr(d.Expr)
			after, err2 := env.Expr(d.Expr)
			if err1 != nil || err2 != nil {
				panic(specErr{fmt.Sprintf("loop %d decreases %q: %v %v", li.ordinal, d.Src, err1, err2)})
			}
			name := fmt.Sprintf("loop.%d.dec", li.ordinal)
			if len(li.backs) > 1 {
				name += fmt.Sprintf(".b%d", p.Index)
			}
			vc.oblige("dec", name, ec, and("(>= "+before.T+" 0)", "(< "+after.T+" "+before.T+")"), d.Src, d.Line)
		}
	}
}

// components written anywhere inside the loop
func (ft *fnTrans) computeLoopWrites(li *loopInfo) {
	for bi := range li.blocks {
		for _, ins := range ft.fn.Blocks[bi].Instrs {
			ws, all := ft.writesOf(ins)
			if all {
				if os.Getenv("GVC_DEBUG") != "" && !li.all {
					fmt.Fprintf(os.Stderr, "debug: loop %d of %s writes everything because of %v\n", li.ordinal, ft.fn.Name(), ins)
				}
				li.all = true
			}
			for _, w := range ws {
				li.writes[w] = true
			}
		}
	}
}


// rangedSlice: for a range-over-slice loop (hidden index phi, condition `index+1 < len(coll)`), the collection.
func (ft *fnTrans) rangedSlice(li *loopInfo) ssa.Value {
	if li.rangeIx == nil {
		return nil
	}
	for _, ins := range li.header.Instrs {
		b, ok := ins.(*ssa.BinOp)
		if !ok || b.Op != token.LSS {
			continue
		}
		call, ok := b.Y.(*ssa.Call)
		if !ok {
			continue
		}
		if bi, ok := call.Call.Value.(*ssa.Builtin); ok && bi.Name() == "len" && len(call.Call.Args) == 1 {
			if _, isSlice := call.Call.Args[0].Type().Underlying().(*types.Slice); isSlice {
				return call.Call.Args[0]
			}
		}
	}
	return nil
}

// isCanonicalRangeIndex checks the go/ssa shape of a range loop's hidden index: phi [entry: -1, back: phi+1].
func (ft *fnTrans) isCanonicalRangeIndex(li *loopInfo) bool {
	phi := li.rangeIx
	for j, p := range li.header.Preds {
		e := phi.Edges[j]
		if ft.isBackEdge(p, li.header) {
			b, ok := e.(*ssa.BinOp)
			if !ok || b.Op != token.ADD || b.X != phi {
				return false
			}
			c, ok := b.Y.(*ssa.Const)
			if !ok || c.Int64() != 1 {
				return false
			}
		} else {
			c, ok := e.(*ssa.Const)
			if !ok || c.Int64() != -1 {
				return false
			}
		}
	}
	return true
}


// checkInvariantWriters: every function of the package that stores to a package-level variable must be under a
// (non-trusted) contract, otherwise the package invariants could be broken unnoticed. Decided syntactically.
func (ft *fnTrans) checkInvariantWriters() {
	vc := ft.vc
	sp := ft.fn.Pkg
	if sp == nil {
		return
	}
	var fns []*ssa.Function
	for _, m := range sp.Members {
		switch x := m.(type) {
		case *ssa.Function:
			fns = append(fns, x)
		case *ssa.Type:
			mset := vc.P.ssaProg.MethodSets.MethodSet(types.NewPointer(x.Type()))
			for i := 0; i < mset.Len(); i++ {
				if f := vc.P.ssaProg.MethodValue(mset.At(i)); f != nil && f.Pkg == sp {
					fns = append(fns, f)
				}
			}
		}
	}
	for _, f := range fns {
		if f.Synthetic != "" || strings.HasSuffix(f.Name(), "_test") {
			continue
		}
		writes := false
		var scan func(g *ssa.Function)
		scan = func(g *ssa.Function) {
			for _, b := range g.Blocks {
				for _, ins := range b.Instrs {
					if st, ok := ins.(*ssa.Store); ok {
						if gl, ok := st.Addr.(*ssa.Global); ok && gl.Pkg == sp && gl.Name() != "init$guard" {
							writes = true
						}
					}
				}
			}
			for _, an := range g.AnonFuncs {
				scan(an)
			}
		}
		scan(f)
		if !writes {
			continue
		}
		key := funcKey(f)
		fc := vc.P.cs.Funcs[key]
		goal := "true"
		if fc == nil || fc.Trusted || fc.Extern {
			goal = "false"
		}
		vc.oblige("closed", "pkginv.writer."+shortFuncName(key), "true", goal, "function "+strings.TrimPrefix(key, modulePath+"/")+" stores to a package variable: it must be under a verified contract (package invariants)", 0)
	}
}

// stringRangeOf: the position component and the string term of a range-over-string loop (Next sits in the header).
func (ft *fnTrans) stringRangeOf(li *loopInfo) (comp, str string, ok bool) {
	if li == nil {
		return "", "", false
	}
	for _, ins := range li.header.Instrs {
		nx, isNext := ins.(*ssa.Next)
		if !isNext || !nx.IsString {
			continue
		}
		if r, isRange := nx.Iter.(*ssa.Range); isRange {
			if rs := ft.rangeSt[r]; rs != nil && !rs.isMap {
				return rs.comp, rs.x, true
			}
		}
	}
	return "", "", false
}
