package main

import (
	"bufio"
	"encoding/json"
	"fmt"
	"os"
	"path/filepath"
	"sort"
	"strconv"
	"strings"
)

type evidence struct {
	PropertyID  string         `json:"property_id"`
	Tier        string         `json:"tier"`
	Seed        int            `json:"seed"`
	Level       string         `json:"level"`
	Coverage    map[string]any `json:"coverage"`
	Assumptions []string       `json:"assumptions"`
	WallS       float64        `json:"wall_s"`
	Violations  int            `json:"violations"`
}

type knownFinding struct {
	Property   string `json:"property"`
	Obligation string `json:"obligation"`
	What       string `json:"what"`
	Status     string `json:"status"` // known | fixed
	Commit     string `json:"commit,omitempty"`
}

type propConfig struct {
	Level   string   `json:"level"`
	Note    string   `json:"note"`
	Bounded []string `json:"bounded"` // names of bounded stand-ins (see bounded.go)
}

type report struct {
	o         *runOpts
	units     []*unitResult
	obls      []*Obl
	failed    []*Obl
	known     []*Obl
	unsup     []string
	loadSecs  float64
	solveSecs float64
	wall      float64
	cs        *ContractSet
	bounded   []boundedResult
}

func loadKnownFindings(verif string) []knownFinding {
	var out []knownFinding
	f, err := os.Open(filepath.Join(verif, "known_findings.jsonl"))
	if err != nil {
		return nil
	}
	defer f.Close()
	sc := bufio.NewScanner(f)
	for sc.Scan() {
		line := strings.TrimSpace(sc.Text())
		if line == "" || strings.HasPrefix(line, "#") || strings.HasPrefix(line, "fixed:") {
			continue
		}
		var k knownFinding
		if json.Unmarshal([]byte(line), &k) == nil {
			out = append(out, k)
		}
	}
	return out
}

func loadPropConfig(verif, prop string) propConfig {
	cfg := propConfig{Level: "proof"}
	b, err := os.ReadFile(filepath.Join(verif, "props.json"))
	if err != nil {
		return cfg
	}
	var all map[string]propConfig
	if json.Unmarshal(b, &all) == nil {
		if c, ok := all[prop]; ok {
			if c.Level == "" {
				c.Level = "proof"
			}
			return c
		}
	}
	return cfg
}

func buildReport(o *runOpts, cs *ContractSet, prog *Prog, units []*unitResult, obls []*Obl, loadSecs, solveSecs, wall float64) *report {
	r := &report{o: o, units: units, obls: obls, loadSecs: loadSecs, solveSecs: solveSecs, wall: wall, cs: cs}
	for _, u := range units {
		for _, s := range u.vc.unsup {
			r.unsup = append(r.unsup, strings.TrimPrefix(u.key, modulePath+"/")+": "+s)
		}
	}
	return r
}

func oblOK(ob *Obl) bool {
	if ob.Result == nil {
		return false
	}
	if ob.Cover {
		return ob.Result.Status != "unsat" && ob.Result.Status != "error"
	}
	return ob.Result.Status == "unsat"
}

func sanitize(s string) string {
	r := strings.NewReplacer("/", "_", "#", "-", "@", "-", " ", "_", "(", "", ")", "", "*", "")
	return r.Replace(s)
}

func (r *report) finish(o *runOpts) int {
	known := loadKnownFindings(o.verif)
	isKnown := func(ob *Obl) *knownFinding {
		for i := range known {
			k := &known[i]
			if k.Status == "fixed" {
				continue
			}
			if (k.Property == "" || o.property == "" || k.Property == o.property) && k.Obligation == ob.Name {
				return k
			}
		}
		return nil
	}
	bySolver := map[string]int{}
	solverSecs := map[string]float64{}
	discharged := 0
	var counted []*Obl
	var samples []any
	var undecidedNames []string
	for _, ob := range r.obls {
		if k := isKnown(ob); k != nil && !oblOK(ob) {
			r.known = append(r.known, ob)
			continue
		}
		counted = append(counted, ob)
		if oblOK(ob) {
			discharged++
			bySolver[ob.Result.Solver]++
			solverSecs[ob.Result.Solver] += ob.Result.Seconds
		} else {
			r.failed = append(r.failed, ob)
			undecidedNames = append(undecidedNames, ob.Name)
		}
	}
	// known findings that no longer fail are simply counted as discharged (nothing is suppressed)
	sort.Slice(counted, func(i, j int) bool { return counted[i].Name < counted[j].Name })
	for i, ob := range counted {
		if i%maxInt(1, len(counted)/12) == 0 && len(samples) < 14 {
			samples = append(samples, map[string]any{"obligation": ob.Name, "kind": ob.Kind, "clause": ob.Src, "status": ob.Result.Status,
				"solver": ob.Result.Solver, "seconds": round3(ob.Result.Seconds), "smt_bytes": ob.Result.Bytes})
		}
	}
	if o.verbose || len(r.failed) > 0 {
		for _, ob := range r.obls {
			mark := "ok  "
			if !oblOK(ob) {
				mark = "FAIL"
			}
			if o.verbose || !oblOK(ob) {
				fmt.Printf("  %s %-70s %-8s %-7s %.2fs  %s\n", mark, ob.Name, ob.Result.Status, ob.Result.Solver, ob.Result.Seconds, truncate(ob.Src, 80))
			}
		}
	}
	violations := 0
	replayDir := filepath.Join(o.verif, "replays", orDefault(o.property, "adhoc"))
	var lines []string
	for _, ob := range r.known {
		k := isKnown(ob)
		lines = append(lines, fmt.Sprintf("KNOWN-FINDING: property=%s %s — %s", orDefault(o.property, k.Property), ob.Name, k.What))
	}
	if len(r.unsup) > 0 || len(r.failed) > 0 {
		os.MkdirAll(replayDir, 0o755)
	}
	for _, s := range r.unsup {
		violations++
		path := filepath.Join(replayDir, sanitize("unit-"+s[:minInt(len(s), 60)])+".json")
		b, _ := json.MarshalIndent(map[string]any{"property": o.property, "obligation": "all obligations of the unit", "reason": s,
			"explanation": "the contract no longer matches the code or the code left the verified subset: the proof that existed on the pinned tree cannot be rebuilt"}, "", " ")
		os.WriteFile(path, b, 0o644)
		lines = append(lines, fmt.Sprintf("VIOLATION property=%s replay=%s no-failing-input-found", orDefault(o.property, "adhoc"), path))
		fmt.Printf("  UNIT %s\n", s)
	}
	for _, ob := range r.failed {
		violations++
		path := filepath.Join(replayDir, sanitize(ob.Name)+".json")
		rep := map[string]any{"property": o.property, "obligation": ob.Name, "kind": ob.Kind, "clause": ob.Src, "contract_line": ob.Line,
			"solver_status": ob.Result.Status, "attempts": ob.Result.Attempts, "solver_output": truncate(ob.Result.Output, 6000)}
		suffix := " no-failing-input-found"
		if ob.Result.Status == "sat" {
			rep["model"] = truncate(ob.Result.Output, 6000)
		}
		if ok, info := tryReplay(o, ob, rep); ok {
			suffix = ""
			rep["replayed_on_real_code"] = info
		}
		os.WriteFile(strings.TrimSuffix(path, ".json")+".smt2", []byte(ob.query), 0o644)
		b, _ := json.MarshalIndent(rep, "", " ")
		os.WriteFile(path, b, 0o644)
		lines = append(lines, fmt.Sprintf("VIOLATION property=%s replay=%s%s", orDefault(o.property, "adhoc"), path, suffix))
	}
	// bounded stand-ins
	cfg := loadPropConfig(o.verif, o.property)
	if o.property != "" && o.funcFilter == "" && o.oblFilter == "" {
		for _, name := range cfg.Bounded {
			br := runBounded(o, name)
			r.bounded = append(r.bounded, br)
			if br.KnownLines != nil {
				lines = append(lines, br.KnownLines...)
			}
			if !br.OK {
				violations++
				lines = append(lines, fmt.Sprintf("VIOLATION property=%s replay=%s", o.property, br.Replay))
			}
		}
	}
	for _, l := range lines {
		fmt.Println(l)
	}

	// evidence
	if o.property != "" && o.funcFilter == "" && o.oblFilter == "" {
		funcs := []string{}
		assumed := map[string]bool{}
		for _, u := range r.units {
			funcs = append(funcs, strings.TrimPrefix(u.key, modulePath+"/"))
			for a := range u.vc.assumed {
				assumed[a] = true
			}
		}
		assumptions := standingAssumptions()
		assumptions = append(assumptions, sortedKeys(assumed)...)
		for _, a := range r.cs.Assumes {
			assumptions = append(assumptions, "contract-file assumption: "+a)
		}
		trusted := []string{"gvc SSA->SMT translation (/verif/gvc)", "go/ssa construction (golang.org/x/tools v0.39.0)", "z3 5.1.0 / z3 4.8.12 / cvc5 1.0 (an obligation counts as discharged when at least one answers unsat)"}
		for k := range assumed {
			if strings.HasPrefix(k, "assumed contract") {
				trusted = append(trusted, k)
			}
		}
		sort.Strings(trusted)
		bs := map[string]any{}
		for k, v := range bySolver {
			bs[k] = map[string]any{"discharged": v, "seconds": round3(solverSecs[k])}
		}
		cov := map[string]any{
			"obligations":              len(counted),
			"discharged":               discharged,
			"checker_cmd":              fmt.Sprintf("bin/gvc check --property %s --tier %s", o.property, o.tier),
			"trusted_base":             trusted,
			"functions_under_contract": funcs,
			"by_solver":                bs,
			"undecided":                undecidedNames,
			"units_not_generated":      r.unsup,
			"known_finding_obligations": func() []string {
				var s []string
				for _, ob := range r.known {
					s = append(s, ob.Name)
				}
				return s
			}(),
			"samples":      samples,
			"load_seconds": round3(r.loadSecs),
			"solve_wall_s": round3(r.solveSecs),
			"explanation":  cfg.Note,
		}
		if len(r.bounded) > 0 {
			var bl []any
			for _, b := range r.bounded {
				bl = append(bl, map[string]any{"what": b.Name, "bound": b.Bound, "cases": b.Cases, "exhaustive": b.Exhaustive, "ok": b.OK, "seconds": round3(b.Seconds), "label": "bounded — never counted in obligations/discharged"})
			}
			cov["bounded"] = bl
		}
		level := cfg.Level
		ev := &evidence{PropertyID: o.property, Tier: o.tier, Seed: seedFromEnv(), Level: level, Coverage: cov, Assumptions: assumptions,
			WallS: round3(r.wall), Violations: violations}
		writeEvidence(o, ev)
	}
	fmt.Printf("gvc: property=%s tier=%s units=%d obligations=%d discharged=%d known=%d failed=%d not-generated=%d load=%.1fs solve=%.1fs\n",
		o.property, o.tier, len(r.units), len(counted), discharged, len(r.known), len(r.failed), len(r.unsup), r.loadSecs, r.solveSecs)
	if violations > 0 {
		return 1
	}
	if len(counted) == 0 {
		fmt.Println("gvc: zero obligations generated — vacuous run")
		return 2
	}
	return 0
}

func seedFromEnv() int {
	if v := os.Getenv("VERIF_SEED"); v != "" {
		if n, err := strconv.Atoi(v); err == nil {
			return n
		}
	}
	return 0
}

func writeEvidence(o *runOpts, ev *evidence) {
	if ev.Assumptions == nil {
		ev.Assumptions = standingAssumptions()
	}
	dir := filepath.Join(o.verif, "evidence")
	os.MkdirAll(dir, 0o755)
	b, _ := json.MarshalIndent(ev, "", " ")
	os.WriteFile(filepath.Join(dir, ev.PropertyID+".json"), append(b, '\n'), 0o644)
}

func standingAssumptions() []string {
	return []string{
		"TCB: Go compiler, go/ssa construction, the gvc SSA->SMT translation and the SMT solvers",
		"machine integers are treated as mathematical integers (no overflow obligations); unsigned types are assumed >= 0",
		"strings are byte sequences in an axiomatised sort (len/at/concat/substring); UTF-8 decoding in range loops is axiomatised (ASCII byte => width 1, rune = byte)",
		"floating point values are uninterpreted",
		"partial correctness: termination is claimed only for loops with a decreases clause",
		"no concurrency: functions are verified as sequential code",
		"calls into fmt, errors, strings, strconv, unicode, path, regexp, gleece's logger and the gopher-fleece runtime constants without an explicit contract are assumed to have no effect on caller-visible heap; strings/strconv/unicode results are deterministic functions of value arguments",
		"a callee with neither contract nor effect-free classification havocs the whole heap and returns arbitrary values; it is assumed not to cause ghost events (file writes, validations) — the set of event-causing functions is closed mechanically by the events#closed obligations",
		"heap model: objects by (struct,field) arrays, slices as (base,off,len,cap) over per-element-type backing stores, maps as (domain,value) arrays; interior pointers that escape are outside the subset",
		"contracts naming a renamed/removed function or variable are reported as a lost proof (contract-stale), never skipped",
	}
}

func round3(f float64) float64 { return float64(int(f*1000+0.5)) / 1000 }

func truncate(s string, n int) string {
	if len(s) <= n {
		return s
	}
	return s[:n] + "…"
}

func orDefault(s, d string) string {
	if s == "" {
		return d
	}
	return s
}

func maxInt(a, b int) int {
	if a > b {
		return a
	}
	return b
}
func minInt(a, b int) int {
	if a < b {
		return a
	}
	return b
}
