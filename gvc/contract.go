package main

// Contract files: /repo/<pkg>/zz_contracts_verif.go  (build tag verif; comments only).
//
// Grammar (one clause per `//@` line; a clause may be continued on following `//@   ...` lines that
// start with at least two spaces after `//@`):
//
//   //@ func <Name> | <Recv>.<Name> [props C01,C14] [pure] [trusted]
//   //@ requires <expr>
//   //@ ensures [name:] <expr>
//   //@ modifies <item>, <item>
//   //@ loop <k> invariant <expr>
//   //@ loop <k> decreases <expr>
//   //@ spec <name>(<x> <T>, ...) <R> = <expr>
//   //@ extern <qualified.Func> [props ...]     (followed by requires/ensures/modifies like func)
//   //@ lemma <name> [props ...] : forall(<x> <T>, ...) <expr>
//   //@ assume <text>                            (free-text, listed in evidence)
//
// Expressions are Go expressions (go/parser.ParseExpr) with pseudo-builtins; see spec.go.

import (
	"bufio"
	"fmt"
	"go/ast"
	"go/parser"
	"os"
	"path/filepath"
	"sort"
	"strings"
)

type Clause struct {
	Optional bool // "ensures?": skipped at call sites where it does not type-check (generic callees)
	Assumed  bool // "ensures!": assumed at call sites, not proved against the body (listed in the evidence)
	Name string // optional label
	Src  string
	Expr ast.Expr
	Line int
}

type LoopSpec struct {
	Invariants []Clause
	Decreases  *Clause
}

type SpecParam struct {
	Name string
	Type string // Go type expression text
}

type SpecFunc struct {
	Rec    bool   // recursive: compiled to define-fun-rec with explicit heap parameters
	Pkg    string // import path of declaring package
	Name   string
	Params []SpecParam
	Result string
	Body   ast.Expr
	Src    string
	File   string
	Line   int
}

type FuncContract struct {
	Opaque []string // pure functions used as uninterpreted symbols in this unit (their contract axioms are not emitted)
	DeclPkg  string // package of the contract file that declares it
	Pkg      string // import path
	Name     string // "F" or "Recv.F"
	Extern   bool   // contract for a function outside the repo or outside reach: assumed
	Trusted  bool   // body not checked (assumed contract on an in-repo function) — listed as assumption
	Pure     bool
	Props    []string
	Requires []Clause
	Ensures  []Clause
	Modifies []Clause
	Loops    map[int]*LoopSpec
	Covers   []Clause
	File     string
	Line     int
	Emits    []EmitClause // exactly one event per call (externs)
	MayEmit  []string     // events this function may cause any number of times
	Havocs   bool // callee may change any heap location (but causes only the events it declares)
	NoSafe   bool // do not generate implicit safety obligations (never used to hide failures; only for extern)
	Bounded  bool
}

type Lemma struct {
	Pkg    string
	Name   string
	Props  []string
	Params []SpecParam
	Body   ast.Expr
	Src    string
	File   string
	Line   int
}

type EventDecl struct {
	Pkg    string
	Name   string
	Params []SpecParam
	Local  bool // only functions whose contracts mention the event reason about it (see events.go)
}

type EmitClause struct {
	Event string
	Args  []ast.Expr
	Src   string
	Line  int
}

type UFunc struct {
	Pkg    string
	Name   string
	Params []SpecParam
	Result string
	File   string
	Line   int
}

type GlobalCheck struct {
	Name  string
	Props []string
}

type ContractSet struct {
	Rendered map[string]bool // package paths of rendered (generated) packages under contract
	Checks  []GlobalCheck
	Events  map[string]*EventDecl
	UFuncs  map[string]*UFunc
	Axioms  []*Lemma
	Funcs   map[string]*FuncContract // key: pkgpath + "." + name
	Specs   map[string]*SpecFunc     // key: pkgpath + "." + name  and also bare name per package
	Lemmas  []*Lemma
	Assumes []string
	Files   []string
	PkgDirs map[string]string // import path -> dir
	Errors  []string
	PkgInvs map[string][]Clause // package path -> invariants over the package's variables
}

func (cs *ContractSet) FuncKeysSorted() []string {
	keys := make([]string, 0, len(cs.Funcs))
	for k := range cs.Funcs {
		keys = append(keys, k)
	}
	sort.Strings(keys)
	return keys
}

const modulePath = "github.com/gopher-fleece/gleece/v2"

func findContractFiles(root string) ([]string, error) {
	var out []string
	err := filepath.Walk(root, func(p string, info os.FileInfo, err error) error {
		if err != nil {
			return nil
		}
		if info.IsDir() {
			n := info.Name()
			if n == ".git" || n == "node_modules" || n == "dist" {
				return filepath.SkipDir
			}
			return nil
		}
		if info.Name() == "zz_contracts_verif.go" {
			out = append(out, p)
		}
		return nil
	})
	sort.Strings(out)
	return out, err
}

func parseSpecParams(s string) ([]SpecParam, error) {
	s = strings.TrimSpace(s)
	if s == "" {
		return nil, nil
	}
	var out []SpecParam
	for _, part := range splitTopLevel(s, ',') {
		part = strings.TrimSpace(part)
		i := strings.IndexAny(part, " \t")
		if i < 0 {
			return nil, fmt.Errorf("bad param %q", part)
		}
		out = append(out, SpecParam{Name: part[:i], Type: strings.TrimSpace(part[i+1:])})
	}
	return out, nil
}

func splitTopLevel(s string, sep byte) []string {
	var out []string
	depth := 0
	start := 0
	inStr := false
	for i := 0; i < len(s); i++ {
		c := s[i]
		if inStr {
			if c == '\\' {
				i++
			} else if c == '"' {
				inStr = false
			}
			continue
		}
		switch c {
		case '"':
			inStr = true
		case '(', '[', '{':
			depth++
		case ')', ']', '}':
			depth--
		default:
			if c == sep && depth == 0 {
				out = append(out, s[start:i])
				start = i + 1
			}
		}
	}
	out = append(out, s[start:])
	return out
}

func parseProps(fields []string) (props []string, rest []string) {
	for i := 0; i < len(fields); i++ {
		if fields[i] == "props" && i+1 < len(fields) {
			for _, p := range strings.Split(fields[i+1], ",") {
				if p != "" {
					props = append(props, p)
				}
			}
			i++
			continue
		}
		rest = append(rest, fields[i])
	}
	return
}

func loadContracts(root string) (*ContractSet, error) {
	files, err := findContractFiles(root)
	if err != nil {
		return nil, err
	}
	cs := &ContractSet{Funcs: map[string]*FuncContract{}, Specs: map[string]*SpecFunc{}, PkgDirs: map[string]string{}, UFuncs: map[string]*UFunc{}, Events: map[string]*EventDecl{}, Rendered: map[string]bool{}}
	for _, f := range files {
		if err := cs.parseFile(root, f); err != nil {
			return nil, err
		}
	}
	return cs, nil
}

func (cs *ContractSet) parseFile(root, file string) error {
	rel, _ := filepath.Rel(root, filepath.Dir(file))
	pkg := modulePath
	if rel != "." {
		pkg = modulePath + "/" + filepath.ToSlash(rel)
	}
	cs.PkgDirs[pkg] = filepath.Dir(file)
	cs.Files = append(cs.Files, file)
	fh, err := os.Open(file)
	if err != nil {
		return err
	}
	defer fh.Close()
	type rawClause struct {
		text string
		line int
	}
	var clauses []rawClause
	sc := bufio.NewScanner(fh)
	sc.Buffer(make([]byte, 1<<20), 1<<20)
	ln := 0
	for sc.Scan() {
		ln++
		line := sc.Text()
		t := strings.TrimLeft(line, " \t")
		if !strings.HasPrefix(t, "//@") {
			continue
		}
		body := t[3:]
		if strings.HasPrefix(body, "   ") && len(clauses) > 0 { // continuation
			clauses[len(clauses)-1].text += " " + strings.TrimSpace(body)
			continue
		}
		body = strings.TrimSpace(body)
		if body == "" {
			continue
		}
		clauses = append(clauses, rawClause{body, ln})
	}
	var cur *FuncContract
	bad := func(c rawClause, msg string, a ...any) error {
		return fmt.Errorf("%s:%d: %s", file, c.line, fmt.Sprintf(msg, a...))
	}
	parseE := func(c rawClause, src string) (ast.Expr, error) {
		e, err := parser.ParseExpr(src)
		if err != nil {
			return nil, bad(c, "cannot parse expression %q: %v", src, err)
		}
		return e, nil
	}
	for _, c := range clauses {
		kw := c.text
		rest := ""
		if i := strings.IndexAny(c.text, " \t"); i >= 0 {
			kw = c.text[:i]
			rest = strings.TrimSpace(c.text[i+1:])
		}
		switch kw {
		case "func", "extern":
			fields := strings.Fields(rest)
			if len(fields) == 0 {
				return bad(c, "missing function name")
			}
			props, others := parseProps(fields[1:])
			fc := &FuncContract{DeclPkg: pkg, Pkg: pkg, Name: fields[0], Props: props, Loops: map[int]*LoopSpec{}, File: file, Line: c.line}
			if kw == "extern" {
				fc.Extern = true
				// extern names are fully qualified: path/to/pkg.Func or path/to/pkg.Recv.Func
				fc.Pkg = ""
			}
			for _, o := range others {
				switch o {
				case "pure":
					fc.Pure = true
				case "trusted":
					fc.Trusted = true
				case "bounded":
					fc.Bounded = true
				case "havocs":
					fc.Havocs = true
				default:
					return bad(c, "unknown func attribute %q", o)
				}
			}
			key := fc.Name
			if !fc.Extern {
				key = pkg + "." + fc.Name
			}
			if _, dup := cs.Funcs[key]; dup {
				return bad(c, "duplicate contract for %s", key)
			}
			cs.Funcs[key] = fc
			cur = fc
		case "requires", "ensures", "ensures?", "ensures!", "cover":
			if cur == nil {
				return bad(c, "%s outside func", kw)
			}
			name := ""
			src := rest
			if i := strings.Index(rest, ":"); i > 0 && isIdent(rest[:i]) && !strings.HasPrefix(rest[i:], ":=") {
				name = rest[:i]
				src = strings.TrimSpace(rest[i+1:])
			}
			e, err := parseE(c, src)
			if err != nil {
				return err
			}
			cl := Clause{Name: name, Src: src, Expr: e, Line: c.line, Optional: kw == "ensures?", Assumed: kw == "ensures!"}
			switch kw {
			case "requires":
				cur.Requires = append(cur.Requires, cl)
			case "ensures", "ensures?", "ensures!":
				cur.Ensures = append(cur.Ensures, cl)
			case "cover":
				cur.Covers = append(cur.Covers, cl)
			}
		case "modifies":
			if cur == nil {
				return bad(c, "modifies outside func")
			}
			for _, it := range splitTopLevel(rest, ',') {
				it = strings.TrimSpace(it)
				if it == "" {
					continue
				}
				e, err := parseE(c, it)
				if err != nil {
					return err
				}
				cur.Modifies = append(cur.Modifies, Clause{Src: it, Expr: e, Line: c.line})
			}
		case "loop":
			if cur == nil {
				return bad(c, "loop outside func")
			}
			var k int
			var what string
			n, _ := fmt.Sscanf(rest, "%d %s", &k, &what)
			if n != 2 {
				return bad(c, "bad loop clause")
			}
			idx := strings.Index(rest, what)
			src := strings.TrimSpace(rest[idx+len(what):])
			e, err := parseE(c, src)
			if err != nil {
				return err
			}
			ls := cur.Loops[k]
			if ls == nil {
				ls = &LoopSpec{}
				cur.Loops[k] = ls
			}
			cl := Clause{Src: src, Expr: e, Line: c.line}
			switch what {
			case "invariant":
				ls.Invariants = append(ls.Invariants, cl)
			case "decreases":
				ls.Decreases = &cl
			default:
				return bad(c, "unknown loop clause %q", what)
			}
		case "spec", "rec":
			// spec name(params) R = expr
			op := strings.Index(rest, "(")
			if op < 0 {
				return bad(c, "bad spec")
			}
			name := strings.TrimSpace(rest[:op])
			depth := 0
			cp := -1
			for i := op; i < len(rest); i++ {
				if rest[i] == '(' {
					depth++
				} else if rest[i] == ')' {
					depth--
					if depth == 0 {
						cp = i
						break
					}
				}
			}
			if cp < 0 {
				return bad(c, "bad spec params")
			}
			params, err := parseSpecParams(rest[op+1 : cp])
			if err != nil {
				return bad(c, "%v", err)
			}
			after := rest[cp+1:]
			eq := strings.Index(after, "=")
			if eq < 0 {
				return bad(c, "spec without body")
			}
			resT := strings.TrimSpace(after[:eq])
			src := strings.TrimSpace(after[eq+1:])
			e, err := parseE(c, src)
			if err != nil {
				return err
			}
			sf := &SpecFunc{Rec: kw == "rec", Pkg: pkg, Name: name, Params: params, Result: resT, Body: e, Src: src, File: file, Line: c.line}
			cs.Specs[pkg+"."+name] = sf
			cur = nil
		case "rendered-package":
			// the following clauses describe Go text that gleece ships inside a template and that is verified as
			// rendered into this package of the fixture module
			pkg = strings.TrimSpace(rest)
			cs.Rendered[pkg] = true
			cur = nil
		case "opaque":
			if cur == nil {
				return bad(c, "opaque outside a function contract")
			}
			for _, f := range strings.Split(rest, ",") {
				if f = strings.TrimSpace(f); f != "" {
					cur.Opaque = append(cur.Opaque, f)
				}
			}
		case "pkginvariant":
			// pkginvariant name: expr  - a property of the package's variables that every function of the package may
			// assume on entry and every function under contract whose frame contains such a variable re-establishes
			i := strings.Index(rest, ":")
			if i < 0 {
				return bad(c, "pkginvariant needs `name: expr`")
			}
			body := strings.TrimSpace(rest[i+1:])
			e, err := parseE(c, body)
			if err != nil {
				return err
			}
			if cs.PkgInvs == nil {
				cs.PkgInvs = map[string][]Clause{}
			}
			cs.PkgInvs[pkg] = append(cs.PkgInvs[pkg], Clause{Name: strings.TrimSpace(rest[:i]), Src: body, Expr: e, Line: c.line})
			cur = nil
		case "check":
			fields := strings.Fields(rest)
			if len(fields) == 0 {
				return bad(c, "check needs a name")
			}
			props, _ := parseProps(fields[1:])
			cs.Checks = append(cs.Checks, GlobalCheck{Name: fields[0], Props: props})
			cur = nil
		case "event":
			op := strings.Index(rest, "(")
			cp := strings.LastIndex(rest, ")")
			if op < 0 || cp < op {
				return bad(c, "bad event declaration")
			}
			params, err := parseSpecParams(rest[op+1 : cp])
			if err != nil {
				return bad(c, "%v", err)
			}
			name := strings.TrimSpace(rest[:op])
			cs.Events[name] = &EventDecl{Pkg: pkg, Name: name, Params: params, Local: strings.Contains(rest[cp+1:], "local")}
			cur = nil
		case "emits":
			if cur == nil {
				return bad(c, "emits outside func")
			}
			e, err := parseE(c, rest)
			if err != nil {
				return err
			}
			ce, ok := e.(*ast.CallExpr)
			if !ok {
				return bad(c, "emits needs event(args)")
			}
			id, ok := ce.Fun.(*ast.Ident)
			if !ok {
				return bad(c, "emits needs event(args)")
			}
			cur.Emits = append(cur.Emits, EmitClause{Event: id.Name, Args: ce.Args, Src: rest, Line: c.line})
		case "mayemit":
			if cur == nil {
				return bad(c, "mayemit outside func")
			}
			for _, n := range strings.Split(rest, ",") {
				if n = strings.TrimSpace(n); n != "" {
					cur.MayEmit = append(cur.MayEmit, n)
				}
			}
		case "ufunc":
			// ufunc name(params) R   — uninterpreted specification function
			op := strings.Index(rest, "(")
			cp := strings.LastIndex(rest, ")")
			if op < 0 || cp < op {
				return bad(c, "bad ufunc")
			}
			params, err := parseSpecParams(rest[op+1 : cp])
			if err != nil {
				return bad(c, "%v", err)
			}
			name := strings.TrimSpace(rest[:op])
			cs.UFuncs[pkg+"."+name] = &UFunc{Pkg: pkg, Name: name, Params: params, Result: strings.TrimSpace(rest[cp+1:]), File: file, Line: c.line}
			cur = nil
		case "lemma", "axiom":
			// lemma name [props X] : (x T, y U) expr
			colon := strings.Index(rest, ":")
			if colon < 0 {
				return bad(c, "lemma without ':'")
			}
			head := strings.Fields(rest[:colon])
			if len(head) == 0 {
				return bad(c, "lemma without name")
			}
			props, _ := parseProps(head[1:])
			body := strings.TrimSpace(rest[colon+1:])
			var params []SpecParam
			if strings.HasPrefix(body, "(") {
				depth := 0
				cp := -1
				for i := 0; i < len(body); i++ {
					if body[i] == '(' {
						depth++
					} else if body[i] == ')' {
						depth--
						if depth == 0 {
							cp = i
							break
						}
					}
				}
				// heuristically: a leading parenthesised group containing "name Type" pairs
				if cp > 0 {
					if ps, err := parseSpecParams(body[1:cp]); err == nil && looksLikeParams(ps) {
						params = ps
						body = strings.TrimSpace(body[cp+1:])
					}
				}
			}
			e, err := parseE(c, body)
			if err != nil {
				return err
			}
			lm := &Lemma{Pkg: pkg, Name: head[0], Props: props, Params: params, Body: e, Src: body, File: file, Line: c.line}
			if kw == "axiom" {
				cs.Axioms = append(cs.Axioms, lm)
				cs.Assumes = append(cs.Assumes, "axiom "+lm.Name+" ("+strings.TrimPrefix(pkg, modulePath+"/")+"): "+body)
			} else {
				cs.Lemmas = append(cs.Lemmas, lm)
			}
			cur = nil
		case "assume":
			cs.Assumes = append(cs.Assumes, rest)
		case "note":
		default:
			return bad(c, "unknown clause keyword %q", kw)
		}
	}
	return nil
}

func looksLikeParams(ps []SpecParam) bool {
	for _, p := range ps {
		if !isIdent(p.Name) || p.Type == "" || strings.ContainsAny(p.Type, "=<>&|+") {
			return false
		}
	}
	return len(ps) > 0
}

func isIdent(s string) bool {
	if s == "" {
		return false
	}
	for i, r := range s {
		if !(r == '_' || (r >= 'a' && r <= 'z') || (r >= 'A' && r <= 'Z') || (i > 0 && r >= '0' && r <= '9')) {
			return false
		}
	}
	return true
}
