package main

import (
	"fmt"
	"go/constant"
	"go/token"
	"go/types"
	"strings"

	"golang.org/x/tools/go/ssa"
)

// static root component(s) of an address value
func (ft *fnTrans) rootComps(addr ssa.Value) []string {
	vc := ft.vc
	switch x := addr.(type) {
	case *ssa.FieldAddr:
		switch x.X.(type) {
		case *ssa.FieldAddr, *ssa.IndexAddr:
			return ft.rootComps(x.X)
		}
		st := x.X.Type().Underlying().(*types.Pointer).Elem()
		return []string{vc.compField(st, x.Field)}
	case *ssa.IndexAddr:
		switch u := x.X.Type().Underlying().(type) {
		case *types.Slice:
			return []string{vc.compElems(u.Elem())}
		case *types.Pointer:
			if a, ok := u.Elem().Underlying().(*types.Array); ok {
				switch x.X.(type) {
				case *ssa.FieldAddr, *ssa.IndexAddr:
					return ft.rootComps(x.X)
				}
				return []string{vc.compElems(a.Elem())}
			}
		}
	case *ssa.Global:
		return []string{vc.compGlobal(x)}
	}
	pt, ok := addr.Type().Underlying().(*types.Pointer)
	if !ok {
		return nil
	}
	return ft.objectComps(pt.Elem())
}

func (ft *fnTrans) objectComps(elem types.Type) []string {
	vc := ft.vc
	switch u := elem.Underlying().(type) {
	case *types.Struct:
		var out []string
		for i := 0; i < u.NumFields(); i++ {
			out = append(out, vc.compField(elem, i))
		}
		return out
	case *types.Array:
		return []string{vc.compElems(u.Elem())}
	}
	return []string{vc.compCell(elem)}
}

// writesOf: heap components an instruction may write; all=true means "anything".
func (ft *fnTrans) writesOf(ins ssa.Instruction) (comps []string, all bool) {
	vc := ft.vc
	switch x := ins.(type) {
	case *ssa.Alloc:
		return append(ft.objectComps(x.Type().(*types.Pointer).Elem()), compTop), false
	case *ssa.Store:
		return ft.rootComps(x.Addr), false
	case *ssa.MapUpdate:
		m := x.Map.Type().Underlying().(*types.Map)
		return []string{vc.compMapDom(m), vc.compMapVal(m)}, false
	case *ssa.MakeMap:
		m := x.Type().Underlying().(*types.Map)
		return []string{vc.compMapDom(m), vc.compMapVal(m), compTop}, false
	case *ssa.MakeSlice:
		return []string{vc.compElems(x.Type().Underlying().(*types.Slice).Elem()), compTop}, false
	case *ssa.MakeInterface:
		if !isRefLike(x.X.Type()) {
			return []string{vc.compCell(x.X.Type()), compTop}, false
		}
		return nil, false
	case *ssa.MakeClosure:
		return []string{compTop}, false
	case *ssa.Range:
		return []string{ft.rangeComp(x)}, false
	case *ssa.Next:
		if r, ok := x.Iter.(*ssa.Range); ok {
			return []string{ft.rangeComp(r)}, false
		}
		return nil, true
	case *ssa.Call:
		return ft.callWrites(&x.Call)
	case *ssa.Defer, *ssa.Go:
		return nil, true
	}
	return nil, false
}

func isRefLike(t types.Type) bool {
	switch types.Unalias(t).Underlying().(type) {
	case *types.Pointer, *types.Map, *types.Chan, *types.Signature:
		return true
	}
	return false
}

func (ft *fnTrans) rangeComp(r *ssa.Range) string {
	name := "$range:" + r.Name()
	switch u := r.X.Type().Underlying().(type) {
	case *types.Map:
		return ft.vc.compPseudo(name, fmt.Sprintf("(Array %s Bool)", ft.vc.sorts.sortOf(u.Key())))
	default:
		return ft.vc.compPseudo(name, "Int")
	}
}

func (ft *fnTrans) callWrites(c *ssa.CallCommon) ([]string, bool) {
	vc := ft.vc
	if b, ok := c.Value.(*ssa.Builtin); ok {
		switch b.Name() {
		case "append":
			sl := c.Args[0].Type().Underlying().(*types.Slice)
			return []string{vc.compElems(sl.Elem()), compTop}, false
		case "copy":
			sl := c.Args[0].Type().Underlying().(*types.Slice)
			return []string{vc.compElems(sl.Elem())}, false
		case "delete":
			m := c.Args[0].Type().Underlying().(*types.Map)
			return []string{vc.compMapDom(m), vc.compMapVal(m)}, false
		case "clear":
			return nil, true
		}
		return nil, false
	}
	key, callee := ft.calleeKey(c)
	if isOmKey(key) {
		return ft.omWrites(key, c), false
	}
	if isMsKey(key) {
		return ft.msWrites(key, c), false
	}
	if strings.HasPrefix(key, "sync/atomic.Add") {
		return ft.rootComps(c.Args[0]), false
	}
	if nativeModel(key) {
		return []string{compTop}, false
	}
	if isHigherOrder(key) {
		if strings.HasPrefix(key, "slices.Sort") {
			return []string{vc.compElems(c.Args[0].Type().Underlying().(*types.Slice).Elem())}, false
		}
		if key == modulePath+"/common/linq.Map" {
			return []string{compTop, vc.compElems(c.Signature().Results().At(0).Type().Underlying().(*types.Slice).Elem())}, false
		}
		if key == modulePath+"/common/linq.First" {
			el := c.Args[0].Type().Underlying().(*types.Slice).Elem()
			out := []string{compTop}
			if st, ok := el.Underlying().(*types.Struct); ok {
				for i := 0; i < st.NumFields(); i++ {
					out = append(out, vc.compField(el, i))
				}
			} else {
				out = append(out, vc.compCell(el))
			}
			return out, false
		}
		return nil, false
	}
	if fc := vc.P.cs.Funcs[key]; fc != nil {
		if fc.Havocs {
			var evs []string
			for _, em := range fc.Emits {
				evs = append(evs, vc.evComps(em.Event)...)
			}
			for _, name := range fc.MayEmit {
				evs = append(evs, vc.evComps(name)...)
			}
			return evs, true
		}
		comps := []string{compTop}
		for _, em := range fc.Emits {
			comps = append(comps, vc.evComps(em.Event)...)
		}
		for _, name := range fc.MayEmit {
			comps = append(comps, vc.evComps(name)...)
		}
		for _, it := range ft.staticModItems(fc, callee, c) {
			comps = append(comps, it.comp)
		}
		return comps, false
	}
	if effectFree(key) {
		return []string{compTop}, false
	}
	return nil, true
}

func (ft *fnTrans) calleeKey(c *ssa.CallCommon) (string, *ssa.Function) {
	if c.IsInvoke() {
		recv := types.Unalias(c.Value.Type())
		name := ""
		if n, ok := recv.(*types.Named); ok {
			if n.Obj().Pkg() != nil {
				name = n.Obj().Pkg().Path() + "." + n.Obj().Name()
			} else {
				name = n.Obj().Name()
			}
		} else {
			name = recv.String()
		}
		return name + "." + c.Method.Name(), nil
	}
	if callee := c.StaticCallee(); callee != nil {
		if callee.Parent() != nil {
			return "closure:" + callee.String(), callee
		}
		return funcKey(callee), callee
	}
	return "", nil
}

// packages/functions assumed to have no effect on caller-visible heap (results arbitrary or deterministic UFs)
func effectFree(key string) bool {
	for _, p := range []string{"fmt.", "errors.", "strings.", "strconv.", "unicode.", "unicode/utf8.", "path.", "path/filepath.",
		modulePath + "/infrastructure/logger.", "regexp.Regexp.", "regexp.MustCompile", "math.", "net/http.StatusText", "slices.Contains", "slices.Index",
		"time.Now", "time.Time.", "encoding/json.Marshal", "context.Background", "context.TODO", "reflect.TypeOf", "github.com/gopher-fleece/runtime.", "os.Getenv", "sort.SearchStrings"} {
		if strings.HasPrefix(key, p) {
			return true
		}
	}
	return false
}

func deterministicPkg(key string) bool {
	for _, p := range []string{"strings.", "strconv.", "unicode.", "unicode/utf8.", "path.", "regexp.Regexp.", "math.", "net/http.StatusText"} {
		if strings.HasPrefix(key, p) {
			return true
		}
	}
	return false
}

func nativeModel(key string) bool {
	switch key {
	case "strings.HasPrefix", "strings.HasSuffix", "strings.Contains", "strings.Index":
		return true
	}
	return false
}

// ---------------- instructions ----------------

func (ft *fnTrans) safe(kind string, reach, cond, what string, pos token.Pos) {
	if cond == "true" {
		return
	}
	line := 0
	if pos.IsValid() {
		line = ft.vc.P.fset.Position(pos).Line
	}
	ft.vc.oblige("safe", ft.siteName("safe."+kind), reach, cond, what, line)
}

func (ft *fnTrans) instr(ins ssa.Instruction, h *Heap, reach string) {
	vc := ft.vc
	switch x := ins.(type) {
	case *ssa.DebugRef:
		return
	case *ssa.Alloc:
		ft.alloc(x, h)
	case *ssa.FieldAddr:
		ft.fieldAddr(x, h, reach)
	case *ssa.IndexAddr:
		ft.indexAddr(x, h, reach)
	case *ssa.Field:
		t := ft.val(x.X)
		ft.vals[x] = vc.sorts.structGet(x.X.Type(), x.Field, t)
	case *ssa.Index:
		switch u := x.X.Type().Underlying().(type) {
		case *types.Array:
			ft.safe("idx", reach, and("(<= 0 "+ft.val(x.Index)+")", fmt.Sprintf("(< %s %d)", ft.val(x.Index), u.Len())), "array index in range", x.Pos())
			ft.vals[x] = sel(ft.val(x.X), ft.val(x.Index))
		case *types.Basic:
			sv, iv := ft.val(x.X), ft.val(x.Index)
			ft.safe("idx", reach, and("(<= 0 "+iv+")", "(< "+iv+" (slen "+sv+"))"), "string index in range", x.Pos())
			ft.vals[x] = "(sat " + sv + " " + iv + ")"
		default:
			unsup("Index on %v", x.X.Type())
		}
	case *ssa.UnOp:
		ft.unop(x, h, reach)
	case *ssa.BinOp:
		ft.vals[x] = vc.define(x.Name(), vc.sorts.sortOf(x.Type()), ft.binop(x, reach))
	case *ssa.Store:
		loc := ft.locOf(x.Addr)
		if loc.kind == lkField || loc.kind == lkCell {
			if !ft.isFreshRef(loc.ref) {
				ft.safe("nil", reach, "(not (= "+loc.ref+" 0))", "store through nil pointer", x.Pos())
			}
		}
		ft.store(loc, h, ft.val(x.Val))
	case *ssa.Phi:
	case *ssa.Call:
		ft.call(x, &x.Call, h, reach)
	case *ssa.ChangeType:
		ft.vals[x] = ft.val(x.X)
	case *ssa.ChangeInterface:
		ft.vals[x] = ft.val(x.X)
	case *ssa.Convert:
		ft.convert(x)
	case *ssa.MakeInterface:
		ft.makeInterface(x, h)
	case *ssa.TypeAssert:
		ft.typeAssert(x, h, reach)
	case *ssa.Extract:
		tup, ok := ft.tuples[x.Tuple]
		if !ok {
			unsup("extract from unknown tuple %s", x.Tuple.Name())
		}
		ft.vals[x] = tup[x.Index]
	case *ssa.Lookup:
		ft.lookup(x, h, reach)
	case *ssa.MapUpdate:
		m := x.Map.Type().Underlying().(*types.Map)
		mt := ft.val(x.Map)
		ft.safe("mapw", reach, "(not (= "+mt+" 0))", "assignment to entry in nil map", x.Pos())
		d, v := vc.compMapDom(m), vc.compMapVal(m)
		ft.frameCheck(d, mt, ft.isFreshRef(mt))
		vc.set(h, d, sto(vc.get(*h, d), mt, sto(sel(vc.get(*h, d), mt), ft.val(x.Key), "true")))
		vc.set(h, v, sto(vc.get(*h, v), mt, sto(sel(vc.get(*h, v), mt), ft.val(x.Key), ft.val(x.Value))))
	case *ssa.MakeMap:
		m := x.Type().Underlying().(*types.Map)
		r := ft.newRef(h, "alloc")
		d := vc.compMapDom(m)
		vc.set(h, d, sto(vc.get(*h, d), r, fmt.Sprintf("((as const (Array %s Bool)) false)", vc.sorts.sortOf(m.Key()))))
		ft.vals[x] = r
	case *ssa.MakeSlice:
		sl := x.Type().Underlying().(*types.Slice)
		r := ft.newRef(h, "alloc")
		c := vc.compElems(sl.Elem())
		vc.set(h, c, sto(vc.get(*h, c), r, vc.zeroArray(vc.sorts.sortOf(sl.Elem()), vc.sorts.zero(sl.Elem(), vc.lits))))
		ln, cp := ft.val(x.Len), ft.val(x.Cap)
		ft.safe("makeslice", reach, and("(<= 0 "+ln+")", "(<= "+ln+" "+cp+")"), "makeslice: len out of range", x.Pos())
		ft.vals[x] = vc.define(x.Name(), "Slice", fmt.Sprintf("(mk-slice %s 0 %s %s)", r, ln, cp))
	case *ssa.Slice:
		ft.slice(x, h, reach)
	case *ssa.Range:
		c := ft.rangeComp(x)
		switch u := x.X.Type().Underlying().(type) {
		case *types.Map:
			vc.set(h, c, fmt.Sprintf("((as const (Array %s Bool)) false)", vc.sorts.sortOf(u.Key())))
			ft.rangeSt[x] = &rangeState{comp: c, isMap: true, mapTy: u, x: ft.val(x.X)}
		default:
			vc.set(h, c, "0")
			ft.rangeSt[x] = &rangeState{comp: c, x: ft.val(x.X)}
		}
		ft.vals[x] = "0"
	case *ssa.Next:
		ft.next(x, h)
	case *ssa.MakeClosure:
		r := ft.newRef(h, "closure")
		ft.vals[x] = r
	case *ssa.Return:
		ft.ret(x, h, reach)
	case *ssa.If:
		c := ft.val(x.Cond)
		b := x.Block()
		ft.edge[[2]int{b.Index, b.Succs[0].Index}] = vc.define(fmt.Sprintf("edge.%d.%d", b.Index, b.Succs[0].Index), "Bool", and(reach, c))
		// both successors may be the same block
		if b.Succs[0] == b.Succs[1] {
			ft.edge[[2]int{b.Index, b.Succs[0].Index}] = reach
		} else {
			ft.edge[[2]int{b.Index, b.Succs[1].Index}] = vc.define(fmt.Sprintf("edge.%d.%d", b.Index, b.Succs[1].Index), "Bool", and(reach, not(c)))
		}
	case *ssa.Jump:
		b := x.Block()
		ft.edge[[2]int{b.Index, b.Succs[0].Index}] = reach
	case *ssa.Panic:
		ft.safe("panic", reach, "false", "reachable panic", x.Pos())
	case *ssa.RunDefers:
	case *ssa.Defer:
		unsup("defer")
	case *ssa.Go:
		unsup("go statement")
	case *ssa.Select, *ssa.Send, *ssa.MakeChan:
		unsup("channels")
	default:
		unsup("instruction %T", ins)
	}
}

func (ft *fnTrans) newRef(h *Heap, prefix string) string {
	vc := ft.vc
	top := vc.get(*h, compTop)
	r := vc.define(prefix, "Int", top)
	vc.set(h, compTop, "(+ "+top+" 1)")
	return r
}

func (ft *fnTrans) alloc(x *ssa.Alloc, h *Heap) {
	vc := ft.vc
	elem := x.Type().(*types.Pointer).Elem()
	r := ft.newRef(h, "alloc")
	ft.vals[x] = r
	switch u := elem.Underlying().(type) {
	case *types.Struct:
		for i := 0; i < u.NumFields(); i++ {
			c := vc.compField(elem, i)
			vc.set(h, c, sto(vc.get(*h, c), r, vc.sorts.zero(u.Field(i).Type(), vc.lits)))
		}
	case *types.Array:
		c := vc.compElems(u.Elem())
		vc.set(h, c, sto(vc.get(*h, c), r, vc.zeroArray(vc.sorts.sortOf(u.Elem()), vc.sorts.zero(u.Elem(), vc.lits))))
	default:
		c := vc.compCell(elem)
		vc.set(h, c, sto(vc.get(*h, c), r, vc.sorts.zero(elem, vc.lits)))
	}
}

func (ft *fnTrans) fieldAddr(x *ssa.FieldAddr, h *Heap, reach string) {
	st := x.X.Type().Underlying().(*types.Pointer).Elem()
	fty := st.Underlying().(*types.Struct).Field(x.Field).Type()
	if parent, ok := ft.locs[x.X]; ok {
		nl := *parent
		nl.path = append(append([]pathStep{}, parent.path...), pathStep{st, x.Field})
		nl.ty = fty
		ft.locs[x] = &nl
		return
	}
	ref := ft.val(x.X)
	if !ft.isFreshRef(ref) {
		ft.safe("nil", reach, "(not (= "+ref+" 0))", "nil pointer dereference (field "+st.Underlying().(*types.Struct).Field(x.Field).Name()+")", x.Pos())
	}
	ft.locs[x] = &Loc{kind: lkField, st: st, field: x.Field, ref: ref, ty: fty}
}

func (ft *fnTrans) indexAddr(x *ssa.IndexAddr, h *Heap, reach string) {
	idx := ft.val(x.Index)
	switch u := x.X.Type().Underlying().(type) {
	case *types.Slice:
		s := ft.val(x.X)
		ft.safe("idx", reach, and("(<= 0 "+idx+")", "(< "+idx+" (s-len "+s+"))"), "slice index in range", x.Pos())
		ft.locs[x] = &Loc{kind: lkElem, elem: u.Elem(), ref: "(s-base " + s + ")", idx: "(sidx (s-off " + s + ") " + idx + ")", ty: u.Elem()}
	case *types.Pointer:
		a, ok := u.Elem().Underlying().(*types.Array)
		if !ok {
			unsup("IndexAddr on %v", x.X.Type())
		}
		if _, derived := ft.locs[x.X]; derived {
			unsup("IndexAddr on array inside a struct")
		}
		ref := ft.val(x.X)
		ft.safe("idx", reach, and("(<= 0 "+idx+")", fmt.Sprintf("(< %s %d)", idx, a.Len())), "array index in range", x.Pos())
		ft.locs[x] = &Loc{kind: lkElem, elem: a.Elem(), ref: ref, idx: idx, ty: a.Elem()}
	default:
		unsup("IndexAddr on %v", x.X.Type())
	}
}

func (ft *fnTrans) unop(x *ssa.UnOp, h *Heap, reach string) {
	vc := ft.vc
	switch x.Op {
	case token.MUL:
		loc := ft.locOf(x.X)
		if (loc.kind == lkField || loc.kind == lkCell) && len(loc.path) == 0 {
			if _, derived := ft.locs[x.X]; !derived && !ft.isFreshRef(loc.ref) {
				ft.safe("nil", reach, "(not (= "+loc.ref+" 0))", "nil pointer dereference", x.Pos())
			}
		}
		t := vc.define(x.Name(), vc.sorts.sortOf(x.Type()), ft.load(loc, *h))
		ft.vals[x] = t
		ft.assumeWF(t, x.Type(), *h)
	case token.NOT:
		ft.vals[x] = not(ft.val(x.X))
	case token.SUB:
		ft.vals[x] = "(- " + ft.val(x.X) + ")"
	default:
		unsup("unary operator %v", x.Op)
	}
}

func (ft *fnTrans) binop(x *ssa.BinOp, reach string) string {
	a, b := ft.val(x.X), ft.val(x.Y)
	ty := x.X.Type()
	if isString(ty) {
		switch x.Op {
		case token.ADD:
			return "(sconcat " + a + " " + b + ")"
		case token.EQL:
			return eq(a, b)
		case token.NEQ:
			return not(eq(a, b))
		case token.LSS:
			return "(slt " + a + " " + b + ")"
		case token.GTR:
			return "(slt " + b + " " + a + ")"
		case token.LEQ:
			return not("(slt " + b + " " + a + ")")
		case token.GEQ:
			return not("(slt " + a + " " + b + ")")
		}
		unsup("string operator %v", x.Op)
	}
	switch x.Op {
	case token.EQL:
		return eq(a, b)
	case token.NEQ:
		return not(eq(a, b))
	}
	if isBoolean(ty) {
		switch x.Op {
		case token.AND, token.LAND:
			return and(a, b)
		case token.OR, token.LOR:
			return or(a, b)
		}
	}
	if !isInteger(ty) {
		// floats: comparisons are uninterpreted
		switch x.Op {
		case token.LSS, token.GTR, token.LEQ, token.GEQ, token.ADD, token.SUB, token.MUL, token.QUO:
			fn := q("float.op:" + x.Op.String())
			rs := "Float"
			if isBoolean(x.Type()) {
				rs = "Bool"
			}
			ft.vc.global(fn, fmt.Sprintf("(declare-fun %s (Float Float) %s)", fn, rs))
			return "(" + fn + " " + a + " " + b + ")"
		}
		unsup("operator %v on %v", x.Op, ty)
	}
	switch x.Op {
	case token.ADD:
		return "(+ " + a + " " + b + ")"
	case token.SUB:
		return "(- " + a + " " + b + ")"
	case token.MUL:
		return "(* " + a + " " + b + ")"
	case token.QUO:
		ft.safe("div", reach, "(not (= "+b+" 0))", "division by zero", x.Pos())
		return "(godiv " + a + " " + b + ")"
	case token.REM:
		ft.safe("div", reach, "(not (= "+b+" 0))", "division by zero", x.Pos())
		return "(gomod " + a + " " + b + ")"
	case token.LSS:
		return "(< " + a + " " + b + ")"
	case token.GTR:
		return "(> " + a + " " + b + ")"
	case token.LEQ:
		return "(<= " + a + " " + b + ")"
	case token.GEQ:
		return "(>= " + a + " " + b + ")"
	}
	// masks of the form 2^k-1 on non-negative operands are arithmetic
	if c, ok := x.Y.(*ssa.Const); ok && c.Value != nil && (x.Op == token.AND || x.Op == token.AND_NOT) {
		if m, exact := constantUint64(c); exact && m&(m+1) == 0 && isUnsigned(ty) {
			pow := fmt.Sprint(m + 1)
			if x.Op == token.AND {
				return "(mod " + a + " " + pow + ")"
			}
			return "(- " + a + " (mod " + a + " " + pow + "))"
		}
	}
	unsup("integer operator %v (bit-level arithmetic is outside the subset)", x.Op)
	return ""
}

func (ft *fnTrans) convert(x *ssa.Convert) {
	vc := ft.vc
	from, to := x.X.Type(), x.Type()
	fs, ts := vc.sorts.sortOf(from), vc.sorts.sortOf(to)
	switch {
	case fs == ts && !(isInteger(from) && isString(to)):
		ft.vals[x] = ft.val(x.X)
		if isUnsigned(to) && !isUnsigned(from) {
			// signed -> unsigned conversion of a negative value wraps; treat as unknown non-negative
			n := vc.fresh(x.Name(), "Int")
			vc.assume("(>= " + n + " 0)")
			vc.assume(implies("(>= "+ft.val(x.X)+" 0)", eq(n, ft.val(x.X))))
			ft.vals[x] = n
		}
	case fs == "Int" && ts == "Float":
		ft.vals[x] = "(float.of " + ft.val(x.X) + ")"
	default:
		// string(rune), []byte(s), string(bytes), float->int: deterministic uninterpreted conversion
		fn := q("conv:" + shortTypeKey(from) + "->" + shortTypeKey(to))
		if ts == "Slice" || fs == "Slice" {
			n := vc.fresh(x.Name(), ts)
			ft.vals[x] = n
			if ts == "Slice" {
				vc.assume("(wf-slice " + n + ")")
			}
			return
		}
		vc.global(fn, fmt.Sprintf("(declare-fun %s (%s) %s)", fn, fs, ts))
		ft.vals[x] = "(" + fn + " " + ft.val(x.X) + ")"
	}
}

func (ft *fnTrans) makeInterface(x *ssa.MakeInterface, h *Heap) {
	vc := ft.vc
	tag := vc.sorts.tagOf(x.X.Type())
	if isRefLike(x.X.Type()) {
		ft.vals[x] = fmt.Sprintf("(mk-iface %d %s)", tag, ft.val(x.X))
		return
	}
	r := ft.newRef(h, "box")
	c := vc.compCell(x.X.Type())
	vc.set(h, c, sto(vc.get(*h, c), r, ft.val(x.X)))
	ft.vals[x] = fmt.Sprintf("(mk-iface %d %s)", tag, r)
}

func (ft *fnTrans) typeAssert(x *ssa.TypeAssert, h *Heap, reach string) {
	vc := ft.vc
	v := ft.val(x.X)
	if _, isIface := x.AssertedType.Underlying().(*types.Interface); isIface {
		// interface-to-interface assertion: succeeds iff non-nil and implements (unknown): uninterpreted
		ok := vc.fresh(x.Name()+".ok", "Bool")
		vc.assume(implies(ok, not(eq(v, "nil-iface"))))
		if x.CommaOk {
			ft.tuples[x] = []string{ite(ok, v, "nil-iface"), ok}
		} else {
			ft.safe("assert", reach, "false", "interface-to-interface assertion may panic", x.Pos())
			ft.vals[x] = v
		}
		return
	}
	tag := vc.sorts.tagOf(x.AssertedType)
	ok := eq("(i-tag "+v+")", fmt.Sprint(tag))
	var payload string
	if isRefLike(x.AssertedType) {
		payload = "(i-ref " + v + ")"
	} else {
		payload = sel(vc.get(*h, vc.compCell(x.AssertedType)), "(i-ref "+v+")")
	}
	if x.CommaOk {
		ft.tuples[x] = []string{ite(ok, payload, vc.sorts.zero(x.AssertedType, vc.lits)), ok}
		return
	}
	ft.safe("assert", reach, ok, "type assertion to "+x.AssertedType.String(), x.Pos())
	ft.vals[x] = payload
}

func (ft *fnTrans) lookup(x *ssa.Lookup, h *Heap, reach string) {
	vc := ft.vc
	switch u := x.X.Type().Underlying().(type) {
	case *types.Map:
		m := ft.val(x.X)
		k := ft.val(x.Index)
		dom := and("(not (= "+m+" 0))", sel(sel(vc.get(*h, vc.compMapDom(u)), m), k))
		val := ite(dom, sel(sel(vc.get(*h, vc.compMapVal(u)), m), k), vc.sorts.zero(u.Elem(), vc.lits))
		if x.CommaOk {
			okc := vc.define(x.Name()+".ok", "Bool", dom)
			v := vc.define(x.Name()+".v", vc.sorts.sortOf(u.Elem()), val)
			ft.assumeWF(v, u.Elem(), *h)
			ft.tuples[x] = []string{v, okc}
		} else {
			v := vc.define(x.Name(), vc.sorts.sortOf(u.Elem()), val)
			ft.assumeWF(v, u.Elem(), *h)
			ft.vals[x] = v
		}
	case *types.Basic:
		s, i := ft.val(x.X), ft.val(x.Index)
		ft.safe("idx", reach, and("(<= 0 "+i+")", "(< "+i+" (slen "+s+"))"), "string index in range", x.Pos())
		ft.vals[x] = "(sat " + s + " " + i + ")"
	default:
		unsup("lookup on %v", x.X.Type())
	}
}

func (ft *fnTrans) slice(x *ssa.Slice, h *Heap, reach string) {
	vc := ft.vc
	lo := "0"
	if x.Low != nil {
		lo = ft.val(x.Low)
	}
	if x.Max != nil {
		unsup("3-index slice")
	}
	switch u := x.X.Type().Underlying().(type) {
	case *types.Basic:
		s := ft.val(x.X)
		hi := "(slen " + s + ")"
		if x.High != nil {
			hi = ft.val(x.High)
		}
		ft.safe("slice", reach, and("(<= 0 "+lo+")", "(<= "+lo+" "+hi+")", "(<= "+hi+" (slen "+s+"))"), "string slice bounds", x.Pos())
		ft.vals[x] = vc.define(x.Name(), "Str", fmt.Sprintf("(ssub %s %s %s)", s, lo, hi))
	case *types.Slice:
		s := ft.val(x.X)
		hi := "(s-len " + s + ")"
		if x.High != nil {
			hi = ft.val(x.High)
		}
		ft.safe("slice", reach, and("(<= 0 "+lo+")", "(<= "+lo+" "+hi+")", "(<= "+hi+" (s-cap "+s+"))"), "slice bounds", x.Pos())
		ft.vals[x] = vc.define(x.Name(), "Slice", fmt.Sprintf("(mk-slice (s-base %s) (+ (s-off %s) %s) (- %s %s) (- (s-cap %s) %s))", s, s, lo, hi, lo, s, lo))
	case *types.Pointer:
		a, ok := u.Elem().Underlying().(*types.Array)
		if !ok {
			unsup("slice of %v", x.X.Type())
		}
		ref := ft.val(x.X)
		hi := fmt.Sprint(a.Len())
		if x.High != nil {
			hi = ft.val(x.High)
		}
		ft.safe("slice", reach, and("(<= 0 "+lo+")", "(<= "+lo+" "+hi+")", fmt.Sprintf("(<= %s %d)", hi, a.Len())), "slice bounds", x.Pos())
		ft.vals[x] = vc.define(x.Name(), "Slice", fmt.Sprintf("(mk-slice %s %s (- %s %s) (- %d %s))", ref, lo, hi, lo, a.Len(), lo))
	default:
		unsup("slice of %v", x.X.Type())
	}
}

func (ft *fnTrans) next(x *ssa.Next, h *Heap) {
	vc := ft.vc
	r, ok := x.Iter.(*ssa.Range)
	if !ok {
		unsup("next on non-range")
	}
	rs := ft.rangeSt[r]
	if rs == nil {
		unsup("next before range")
	}
	if rs.isMap {
		m := rs.x
		seen := vc.get(*h, rs.comp)
		ks := vc.sorts.sortOf(rs.mapTy.Key())
		k := vc.fresh(x.Name()+".k", ks)
		okc := vc.fresh(x.Name()+".ok", "Bool")
		dom := sel(vc.get(*h, vc.compMapDom(rs.mapTy)), m)
		vc.assume(implies(okc, and("(not (= "+m+" 0))", sel(dom, k), not(sel(seen, k)))))
		vc.assume(implies(not(okc), or(eq(m, "0"), fmt.Sprintf("(forall ((k %s)) (! (=> (select %s k) (select %s k)) :pattern ((select %s k))))", ks, dom, seen, dom))))
		v := vc.define(x.Name()+".v", vc.sorts.sortOf(rs.mapTy.Elem()), sel(sel(vc.get(*h, vc.compMapVal(rs.mapTy)), m), k))
		ft.assumeWF(v, rs.mapTy.Elem(), *h)
		ft.assumeWF(k, rs.mapTy.Key(), *h)
		vc.set(h, rs.comp, ite(okc, sto(seen, k, "true"), seen))
		ft.tuples[x] = []string{okc, k, v}
		return
	}
	// string iteration: position, rune
	s := rs.x
	pos := vc.get(*h, rs.comp)
	okc := vc.define(x.Name()+".ok", "Bool", "(< "+pos+" (slen "+s+"))")
	w := vc.fresh(x.Name()+".w", "Int")
	rn := vc.fresh(x.Name()+".r", "Int")
	b0 := "(sat " + s + " " + pos + ")"
	vc.assume(and("(<= 1 "+w+")", "(<= "+w+" 4)", "(<= (+ "+pos+" "+w+") (slen "+s+"))"))
	vc.assume(implies("(< "+b0+" 128)", and(eq(w, "1"), eq(rn, b0))))
	vc.assume(implies("(>= "+b0+" 128)", "(>= "+rn+" 128)"))
	vc.set(h, rs.comp, ite(okc, "(+ "+pos+" "+w+")", pos))
	ft.tuples[x] = []string{okc, pos, rn}
}

func (ft *fnTrans) ret(x *ssa.Return, h *Heap, reach string) {
	vc := ft.vc
	env := ft.envAt(*h, nil, nil)
	for _, r := range x.Results {
		env.results = append(env.results, TV{ft.val(r), r.Type()})
	}
	// named results
	if res := ft.fn.Signature.Results(); res != nil {
		for i := 0; i < res.Len() && i < len(env.results); i++ {
			if n := res.At(i).Name(); n != "" && n != "_" {
				env.vars[n] = env.results[i]
			}
		}
	}
	if env.old != nil {
		env.old.results = env.results
	}
	site := ""
	nret := 0
	for _, b := range ft.fn.Blocks {
		if len(b.Instrs) > 0 {
			if _, ok := b.Instrs[len(b.Instrs)-1].(*ssa.Return); ok {
				nret++
			}
		}
	}
	if nret > 1 {
		site = fmt.Sprintf("@ret%d", ft.retOrdinal(x))
	}
	for k, e := range ft.fc.Ensures {
		if e.Assumed {
			// "ensures!": an assumption about this function that its callers use; not an obligation of the body
			vc.assumed["assumed clause of "+shortFuncName(funcKey(ft.fn))+": "+e.Src] = true
			continue
		}
		t, err := env.Bool(e.Expr)
		if err != nil {
			panic(specErr{fmt.Sprintf("ensures %q: %v", e.Src, err)})
		}
		name := fmt.Sprintf("post.%d", k)
		if e.Name != "" {
			name = "post." + e.Name
		}
		vc.oblige("post", name+site, reach, t, e.Src, e.Line)
	}
	// package invariants: re-established by the initialiser and by every function whose frame contains a package variable
	if ft.pkg != nil && !ft.fc.Havocs {
		touches := ft.fn.Synthetic == "package initializer"
		for _, m := range ft.modItems {
			if strings.HasPrefix(m.comp, "G:") {
				touches = true
			}
		}
		if touches {
			for _, inv := range vc.P.cs.PkgInvs[ft.pkg.Path()] {
				t, err := env.Bool(inv.Expr)
				if err != nil {
					panic(specErr{fmt.Sprintf("pkginvariant %q: %v", inv.Src, err)})
				}
				vc.oblige("post", "pkginv."+inv.Name+site, reach, t, inv.Src, inv.Line)
			}
		}
	}
}

func (ft *fnTrans) retOrdinal(x *ssa.Return) int {
	n := 0
	for _, b := range ft.fn.Blocks {
		if len(b.Instrs) > 0 {
			if r, ok := b.Instrs[len(b.Instrs)-1].(*ssa.Return); ok {
				if r == x {
					return n
				}
				n++
			}
		}
	}
	return n
}


func constantUint64(c *ssa.Const) (uint64, bool) {
	if c.Value == nil {
		return 0, false
	}
	return constant.Uint64Val(constant.ToInt(c.Value))
}
