package main

import (
	"fmt"
	"go/types"
	"strings"

	"golang.org/x/tools/go/ssa"
)

func (ft *fnTrans) setResult(x ssa.Value, sig *types.Signature, terms []string) {
	if x == nil {
		return
	}
	switch len(terms) {
	case 0:
	case 1:
		ft.vals[x] = terms[0]
	default:
		ft.tuples[x] = terms
	}
}

func (ft *fnTrans) call(x ssa.Value, c *ssa.CallCommon, h *Heap, reach string) {
	vc := ft.vc
	if b, ok := c.Value.(*ssa.Builtin); ok {
		ft.builtin(x, b, c, h, reach)
		return
	}
	sig := c.Signature()
	key, callee := ft.calleeKey(c)
	var args []TV
	if ft.omCall(x, key, c, h, reach) {
		return
	}
	if ft.msCall(x, key, c, h, reach) {
		return
	}
	if strings.HasPrefix(key, "sync/atomic.Add") {
		loc := ft.locOf(c.Args[0])
		nv := vc.define(nameOr(x, "atomic"), "Int", "(+ "+ft.load(loc, *h)+" "+ft.val(c.Args[1])+")")
		ft.store(loc, h, nv)
		ft.vals[x] = nv
		vc.assumed["sync/atomic.Add* modelled as sequential +"] = true
		return
	}
	if c.IsInvoke() {
		args = append(args, TV{ft.val(c.Value), c.Value.Type()})
		ft.safe("nil", reach, not(eq(ft.val(c.Value), "(mk-iface 0 0)")), "method call on nil interface value ("+c.Method.Name()+")", c.Pos())
	}
	var interior []interiorArg
	for _, a := range c.Args {
		if l, isLoc := ft.locs[a]; isLoc {
			// interior pointer passed to a callee: copy-in / copy-out through a fresh cell
			ip := ft.materialize(l, a.Type(), h)
			interior = append(interior, interiorArg{loc: l, ref: ip, ty: a.Type()})
			args = append(args, TV{ip, a.Type()})
			vc.assumed["interior pointer arguments are passed by copy-in/copy-out (callee assumed not to reach the same location through another path)"] = true
			continue
		}
		args = append(args, TV{ft.val(a), a.Type()})
	}
	defer func() {
		for _, ia := range interior {
			ft.copyOut(ia, h)
		}
	}()
	if strings.HasPrefix(key, "sync/atomic.Add") {
		// modelled sequentially (no concurrency in the verified subset)
		loc := ft.locOf(c.Args[0])
		nv := vc.define(nameOr(x, "atomic"), "Int", "(+ "+ft.load(loc, *h)+" "+ft.val(c.Args[1])+")")
		ft.store(loc, h, nv)
		ft.vals[x] = nv
		vc.assumed["sync/atomic.Add* modelled as sequential +"] = true
		return
	}
	if nativeModel(key) {
		ft.vals[x] = ft.native(key, args)
		return
	}
	if ft.higherOrder(x, key, c, h, reach) {
		return
	}
	if fc := vc.P.cs.Funcs[key]; fc != nil {
		ft.applyContract(x, fc, callee, c, args, h, reach)
		return
	}
	// no contract
	var results []string
	resSorts := []string{}
	for i := 0; i < sig.Results().Len(); i++ {
		resSorts = append(resSorts, vc.sorts.sortOf(sig.Results().At(i).Type()))
	}
	if effectFree(key) {
		vc.assumed["effect-free (no contract): "+key] = true
		det := deterministicPkg(key)
		for _, a := range args {
			s := vc.sorts.sortOf(a.Ty)
			if s != "Str" && s != "Int" && s != "Bool" {
				det = false
			}
		}
		for i, rs := range resSorts {
			if det && (rs == "Str" || rs == "Int" || rs == "Bool") {
				var as, ts []string
				for _, a := range args {
					as = append(as, vc.sorts.sortOf(a.Ty))
					ts = append(ts, a.T)
				}
				results = append(results, vc.detUF(key, i, as, ts, rs))
				continue
			}
			// allocation may happen inside
			n := vc.fresh(nameOr(x, "call"), rs)
			results = append(results, n)
		}
		top := vc.get(*h, compTop)
		nt := vc.havoc(h, compTop)
		vc.assume("(>= " + nt + " " + top + ")")
		for i, r := range results {
			if !strings.HasPrefix(r, "(") {
				ft.assumeWF(r, sig.Results().At(i).Type(), *h)
			}
		}
		// fmt.Errorf / errors.New never return nil
		if key == "fmt.Errorf" || key == "errors.New" {
			vc.assume(not(eq(results[0], "nil-iface")))
		}
		ft.setResult(x, sig, results)
		return
	}
	if strings.HasPrefix(key, "closure:") {
		// a function literal of this very function is called: its body belongs to the function but is not verified
		// (only literals handed to the modelled library helpers are evaluated) - the unit is outside the subset
		unsup("call of a local function literal (%s): its body would go unverified", strings.TrimPrefix(key, "closure:"))
	}
	// unknown callee: everything may change
	vc.assumed["havoc (no contract): "+key] = true
	pre := h.clone()
	savedEv := map[string]string{}
	for c := range vc.comps {
		if strings.HasPrefix(c, "$ev:") {
			savedEv[c] = vc.get(*h, c)
		}
	}
	vc.havocAll(h)
	for c, t := range savedEv {
		h.m[c] = t
	}
	ft.preserveLocals(pre, h)
	for i, rs := range resSorts {
		n := vc.fresh(nameOr(x, "call"), rs)
		ft.assumeWF(n, sig.Results().At(i).Type(), *h)
		results = append(results, n)
	}
	ft.setResult(x, sig, results)
}

func nameOr(x ssa.Value, d string) string {
	if x != nil && x.Name() != "" {
		return x.Name()
	}
	return d
}

func (ft *fnTrans) native(key string, args []TV) string {
	vc := ft.vc
	switch key {
	case "strings.HasPrefix":
		return vc.hasPrefix(args[0].T, args[1].T)
	case "strings.HasSuffix":
		return vc.hasSuffix(args[0].T, args[1].T)
	case "strings.Contains":
		return vc.strContains(args[0].T, args[1].T)
	case "strings.Index":
		return vc.strIndex(args[0].T, args[1].T)
	}
	panic("no native model for " + key)
}

// parameter names of a callee (receiver first)
func calleeParamNames(callee *ssa.Function, sig *types.Signature, invoke bool) []string {
	var names []string
	if callee != nil && len(callee.Params) > 0 {
		for _, p := range callee.Params {
			names = append(names, p.Name())
		}
		return names
	}
	if sig.Recv() != nil || invoke {
		if sig.Recv() != nil && sig.Recv().Name() != "" {
			names = append(names, sig.Recv().Name())
		} else {
			names = append(names, "recv")
		}
	}
	for i := 0; i < sig.Params().Len(); i++ {
		n := sig.Params().At(i).Name()
		if n == "" || n == "_" {
			n = fmt.Sprintf("arg%d", i)
		}
		names = append(names, n)
	}
	return names
}

func (ft *fnTrans) calleePkg(fc *FuncContract, callee *ssa.Function, c *ssa.CallCommon) *types.Package {
	if fc.Extern {
		if p := ft.vc.P.typesPkg(fc.DeclPkg); p != nil {
			return p
		}
	}
	if callee != nil {
		if callee.Pkg != nil {
			return callee.Pkg.Pkg
		}
		if callee.Object() != nil && callee.Object().Pkg() != nil {
			return callee.Object().Pkg()
		}
	}
	if c != nil && c.IsInvoke() && c.Method.Pkg() != nil {
		return c.Method.Pkg()
	}
	if fc.Pkg != "" {
		if p := ft.vc.P.typesPkg(fc.Pkg); p != nil {
			return p
		}
	}
	return ft.pkg
}

// staticModItems: the callee's modifies items with dummy references (only the component names are used)
func (ft *fnTrans) staticModItems(fc *FuncContract, callee *ssa.Function, c *ssa.CallCommon) []modItem {
	if len(fc.Modifies) == 0 {
		return nil
	}
	sig := c.Signature()
	names := calleeParamNames(callee, sig, c.IsInvoke())
	env := &Env{vc: ft.vc, pkg: ft.calleePkg(fc, callee, c), vars: map[string]TV{}, heap: ft.entry, top0: ft.top0}
	env.boxed = ft.boxedArgs(c, names)
	i := 0
	if c.IsInvoke() {
		env.vars[names[0]] = TV{"0", c.Value.Type()}
		i = 1
	}
	for j, a := range c.Args {
		if i+j < len(names) {
			env.vars[names[i+j]] = TV{"0", a.Type()}
		}
	}
	var out []modItem
	for _, m := range fc.Modifies {
		out = append(out, evalModItem(ft.vc, env, m)...)
	}
	return out
}

func (ft *fnTrans) applyContract(x ssa.Value, fc *FuncContract, callee *ssa.Function, c *ssa.CallCommon, args []TV, h *Heap, reach string) {
	vc := ft.vc
	sig := c.Signature()
	names := calleeParamNames(callee, sig, c.IsInvoke())
	if len(names) != len(args) {
		// variadic externs etc.
		for len(names) < len(args) {
			names = append(names, fmt.Sprintf("arg%d", len(names)))
		}
	}
	key := fc.Name
	if fc.Pkg != "" {
		key = strings.TrimPrefix(fc.Pkg, modulePath+"/") + "." + fc.Name
	}
	if fc.Extern || fc.Trusted {
		vc.assumed["assumed contract: "+key] = true
	} else {
		vc.assumed["callee contract (verified separately): "+key] = true
	}
	pkg := ft.calleePkg(fc, callee, c)
	pre := &Env{vc: vc, pkg: pkg, vars: map[string]TV{}, heap: h.clone(), top0: ft.top0}
	for i, a := range args {
		pre.vars[names[i]] = a
	}
	pre.old = pre
	pre.boxed = ft.boxedArgs(c, names)
	site := ft.siteName("call." + shortFuncName(key))
	for k, r := range fc.Requires {
		t, err := pre.Bool(r.Expr)
		if err != nil {
			panic(specErr{fmt.Sprintf("requires of %s %q: %v", key, r.Src, err)})
		}
		vc.oblige("pre@call", fmt.Sprintf("%s.pre.%d", site, k), reach, t, r.Src, r.Line)
	}
	var items []modItem
	for _, m := range fc.Modifies {
		items = append(items, evalModItem(vc, pre, m)...)
	}
	// the caller's own frame: whatever the callee may modify, the caller must be allowed to modify
	for _, it := range items {
		if it.ref == "" {
			ft.frameCheckAny(it.comp)
		} else {
			ft.frameCheck(it.comp, it.ref, false)
		}
	}
	for _, name := range fc.MayEmit {
		ft.requireEmitAllowed(name, reach)
		for i, c := range vc.evComps(name) {
			oldT := vc.get(*h, c)
			newT := vc.havoc(h, c)
			if i == 0 {
				vc.assume("(>= " + newT + " " + oldT + ")")
			}
		}
	}
	if fc.Havocs {
		// everything but the ghost events may change
		saved := map[string]string{}
		for c := range vc.comps {
			if strings.HasPrefix(c, "$ev:") {
				saved[c] = vc.get(*h, c)
			}
		}
		preH := h.clone()
		ft.frameCheckHavocs(reach)
		vc.havocAll(h)
		ft.preserveLocals(preH, h)
		for c, t := range saved {
			h.m[c] = t
		}
		vc.assumed["trusted: "+key+" causes only the events it declares"] = true
	}
	topPre := vc.get(*h, compTop)
	nt := vc.havoc(h, compTop)
	vc.assume("(>= " + nt + " " + topPre + ")")
	done := map[string]bool{}
	for _, it := range items {
		if done[it.comp] {
			continue
		}
		done[it.comp] = true
		oldT := vc.get(*h, it.comp)
		newT := vc.havoc(h, it.comp)
		ft.frameAssume(it.comp, oldT, newT, topPre, items)
	}
	for c := range done {
		vc.assumeClosed(*h, c)
	}
	// results
	var results []string
	if fc.Pure {
		r := vc.pureApp(fc, args)
		results = append(results, r.T)
	} else {
		for i := 0; i < sig.Results().Len(); i++ {
			n := vc.fresh(nameOr(x, "call"), vc.sorts.sortOf(sig.Results().At(i).Type()))
			ft.assumeWF(n, sig.Results().At(i).Type(), *h)
			results = append(results, n)
		}
	}
	// objects the callee allocated (refs in [topPre, top)) are well-formed too: closedness of the fresh region
	// for every component reachable from the result types
	{
		reach := map[string]bool{}
		for i := 0; i < sig.Results().Len(); i++ {
			ft.compsReachable(sig.Results().At(i).Type(), 3, reach)
		}
		for _, c := range sortedKeys(reach) {
			if done[c] {
				continue
			}
			if ax := vc.closedAxiomRegion(c, vc.get(*h, c), topPre, vc.get(*h, compTop), func(d string) string { return vc.get(*h, d) }); ax != "" {
				vc.emit(ax)
			}
		}
	}
	oldEnv := *pre
	oldEnv.old = &oldEnv
	post := &Env{vc: vc, pkg: pkg, vars: pre.vars, heap: *h, old: &oldEnv, top0: topPre}
	defer func() { oldEnv.results = post.results }()
	for i, r := range results {
		post.results = append(post.results, TV{r, sig.Results().At(i).Type()})
		oldEnv.results = post.results
		if n := sig.Results().At(i).Name(); n != "" && n != "_" {
			post.vars = copyVars(post.vars)
			post.vars[n] = post.results[i]
		}
	}
	// ghost events
	for _, em := range fc.Emits {
		ft.requireEmitAllowed(em.Event, reach)
		cnt := vc.evCounter(em.Event)
		tys := vc.evArgTypes(em.Event)
		if len(tys) != len(em.Args) {
			panic(specErr{fmt.Sprintf("emits %s: want %d arguments", em.Event, len(tys))})
		}
		for i, a := range em.Args {
			v, err := post.Expr(a)
			if err != nil {
				panic(specErr{fmt.Sprintf("emits %q of %s: %v", em.Src, key, err)})
			}
			c, _ := vc.evArg(em.Event, i)
			vc.set(h, c, v.T)
		}
		vc.set(h, cnt, "(+ "+vc.get(*h, cnt)+" 1)")
	}
	post.heap = *h
	for _, e := range fc.Ensures {
		if e.Assumed {
			vc.assumed["assumed clause of "+shortFuncName(key)+": "+e.Src] = true
		}
		t, err := post.Bool(e.Expr)
		if err != nil {
			if e.Optional {
				continue // not applicable to this instantiation: assuming less is sound
			}
			panic(specErr{fmt.Sprintf("ensures of %s %q: %v", key, e.Src, err)})
		}
		vc.assume(implies(reach, t))
	}
	// package invariants of the callee's package hold again after a callee that is under a verified contract and whose
	// frame contains a package variable (it re-establishes them at each of its returns)
	if pkg != nil && !fc.Havocs && !fc.Trusted && !fc.Extern {
		touches := false
		for _, it := range items {
			if strings.HasPrefix(it.comp, "G:") {
				touches = true
			}
		}
		if touches {
			for _, inv := range vc.P.cs.PkgInvs[pkg.Path()] {
				if t, err := post.Bool(inv.Expr); err == nil {
					vc.assume(implies(reach, t))
				}
			}
		}
	}
	ft.setResult(x, sig, results)
}

func copyVars(m map[string]TV) map[string]TV {
	n := map[string]TV{}
	for k, v := range m {
		n[k] = v
	}
	return n
}

func (ft *fnTrans) frameCheckAny(comp string) {
	if ft.fc.Havocs {
		return
	}
	for _, m := range ft.modItems {
		if m.comp == comp && m.ref == "" {
			return
		}
	}
	ft.vc.oblige("frame", ft.siteName("frame"), ft.reach[ft.curBlock.Index], "false", "callee may write any object of "+comp+"; caller's modifies must say any(...) too", 0)
}

func shortFuncName(key string) string {
	if i := strings.LastIndex(key, "/"); i >= 0 {
		key = key[i+1:]
	}
	return key
}

// ---- pure functions as uninterpreted functions with their contract as axiom ----

func isValueOnly(t types.Type, depth int) bool {
	if depth > 4 {
		return false
	}
	switch u := types.Unalias(t).Underlying().(type) {
	case *types.Basic:
		return true
	case *types.Struct:
		for i := 0; i < u.NumFields(); i++ {
			if !isValueOnly(u.Field(i).Type(), depth+1) {
				return false
			}
		}
		return true
	}
	return false
}

func (vc *VC) pureApp(fc *FuncContract, args []TV) TV {
	key := fc.Name
	if fc.Pkg != "" {
		key = fc.Pkg + "." + fc.Name
	}
	fobj := vc.P.lookupFunc(key)
	if fobj == nil {
		sfail("pure function %s not found", key)
	}
	sig := fobj.Type().(*types.Signature)
	if sig.Results().Len() != 1 {
		sfail("pure function %s must have exactly one result", key)
	}
	var ptypes []types.Type
	var pnames []string
	if sig.Recv() != nil {
		ptypes = append(ptypes, sig.Recv().Type())
		n := sig.Recv().Name()
		if n == "" {
			n = "recv"
		}
		pnames = append(pnames, n)
	}
	for i := 0; i < sig.Params().Len(); i++ {
		ptypes = append(ptypes, sig.Params().At(i).Type())
		n := sig.Params().At(i).Name()
		if n == "" || n == "_" {
			n = fmt.Sprintf("arg%d", i)
		}
		pnames = append(pnames, n)
	}
	if len(args) != len(ptypes) {
		sfail("pure function %s: want %d args, got %d", key, len(ptypes), len(args))
	}
	for _, t := range ptypes {
		if !isValueOnly(t, 0) {
			sfail("pure function %s has a reference-typed parameter (%v); pure is only allowed on value-only signatures", key, t)
		}
	}
	rt := sig.Results().At(0).Type()
	fn := q("fn:" + strings.TrimPrefix(key, modulePath+"/"))
	gk := "pure:" + key
	if !vc.declared[gk] {
		vc.declared[gk] = true
		var sorts, bvs, bnames []string
		vars := map[string]TV{}
		for i, t := range ptypes {
			s := vc.sorts.sortOf(t)
			sorts = append(sorts, s)
			bn := fmt.Sprintf("a!%d", i)
			bvs = append(bvs, fmt.Sprintf("(%s %s)", bn, s))
			bnames = append(bnames, bn)
			vars[pnames[i]] = TV{bn, t}
		}
		decl := fmt.Sprintf("(declare-fun %s (%s) %s)", fn, strings.Join(sorts, " "), vc.sorts.sortOf(rt))
		vc.globals = append(vc.globals, decl)
		app := "(" + fn + " " + strings.Join(bnames, " ") + ")"
		if len(bnames) == 0 {
			app = fn
		}
		pkg := vc.P.typesPkg(fc.Pkg)
		if pkg == nil {
			pkg = fobj.Pkg()
		}
		env := &Env{vc: vc, pkg: pkg, vars: vars, heap: Heap{m: map[string]string{}}, top0: "1"}
		env.old = env
		env.results = []TV{{app, rt}}
		if n := sig.Results().At(0).Name(); n != "" && n != "_" {
			env.vars[n] = env.results[0]
		}
		var pres []string
		for _, r := range fc.Requires {
			t, err := env.Bool(r.Expr)
			if err != nil {
				sfail("requires of pure %s: %v", key, err)
			}
			pres = append(pres, t)
		}
		hidden := false
		for _, o := range vc.opaque {
			if key == o || strings.HasSuffix(key, "/"+o) {
				hidden = true
				vc.assumed["note: pure function "+strings.TrimPrefix(key, modulePath+"/")+" is used as an uninterpreted symbol in "+vc.funcName+" (opaque)"] = true
			}
		}
		for _, e := range fc.Ensures {
			if hidden {
				break
			}
			t, err := env.Bool(e.Expr)
			if err != nil {
				sfail("ensures of pure %s: %v", key, err)
			}
			body := implies(and(pres...), t)
			if len(bnames) == 0 {
				vc.globals = append(vc.globals, "(assert "+body+")")
			} else {
				vc.globals = append(vc.globals, fmt.Sprintf("(assert (forall (%s) (! %s :pattern (%s))))", strings.Join(bvs, " "), body, app))
			}
		}
		if isUnsigned(rt) {
			vc.globals = append(vc.globals, fmt.Sprintf("(assert (forall (%s) (! (>= %s 0) :pattern (%s))))", strings.Join(bvs, " "), app, app))
		}
	}
	var ts []string
	for _, a := range args {
		ts = append(ts, a.T)
	}
	if len(ts) == 0 {
		return TV{fn, rt}
	}
	return TV{"(" + fn + " " + strings.Join(ts, " ") + ")", rt}
}

// ---------------- builtins ----------------

func (ft *fnTrans) builtin(x ssa.Value, b *ssa.Builtin, c *ssa.CallCommon, h *Heap, reach string) {
	vc := ft.vc
	switch b.Name() {
	case "len":
		a := c.Args[0]
		switch u := a.Type().Underlying().(type) {
		case *types.Basic:
			ft.vals[x] = "(slen " + ft.val(a) + ")"
		case *types.Slice:
			ft.vals[x] = "(s-len " + ft.val(a) + ")"
		case *types.Map:
			ft.vals[x] = vc.define(x.Name(), "Int", vc.mapCard(*h, u, ft.val(a)))
		case *types.Array:
			ft.vals[x] = fmt.Sprint(u.Len())
		case *types.Pointer:
			ft.vals[x] = fmt.Sprint(u.Elem().Underlying().(*types.Array).Len())
		default:
			unsup("len of %v", a.Type())
		}
	case "cap":
		ft.vals[x] = "(s-cap " + ft.val(c.Args[0]) + ")"
	case "append":
		ft.appendCall(x, c, h, reach)
	case "delete":
		m := c.Args[0].Type().Underlying().(*types.Map)
		mt, k := ft.val(c.Args[0]), ft.val(c.Args[1])
		d := vc.compMapDom(m)
		// delete on a nil map is a no-op
		ft.frameCheck(d, mt, ft.isFreshRef(mt))
		cur := vc.get(*h, d)
		vc.set(h, d, ite(eq(mt, "0"), cur, sto(cur, mt, sto(sel(cur, mt), k, "false"))))
	case "min", "max":
		op := "<="
		if b.Name() == "max" {
			op = ">="
		}
		r := ft.val(c.Args[0])
		for _, a := range c.Args[1:] {
			r = ite("("+op+" "+r+" "+ft.val(a)+")", r, ft.val(a))
		}
		ft.vals[x] = r
	case "print", "println":
	case "copy":
		unsup("builtin copy")
	default:
		unsup("builtin %s", b.Name())
	}
}

// statically known element count of a slice value built from a fresh array (varargs / slice literal)
func (ft *fnTrans) staticSliceLen(v ssa.Value) (int64, bool) {
	if s, ok := v.(*ssa.Slice); ok && s.Low == nil && s.High == nil {
		if a, ok := s.X.(*ssa.Alloc); ok {
			if arr, ok := a.Type().(*types.Pointer).Elem().Underlying().(*types.Array); ok {
				return arr.Len(), true
			}
		}
	}
	if c, ok := v.(*ssa.Const); ok && c.Value == nil {
		return 0, true
	}
	return 0, false
}

func (ft *fnTrans) appendCall(x ssa.Value, c *ssa.CallCommon, h *Heap, reach string) {
	vc := ft.vc
	sl := c.Args[0].Type().Underlying().(*types.Slice)
	if b, ok := c.Args[1].Type().Underlying().(*types.Basic); ok && b.Info()&types.IsString != 0 {
		unsup("append(bytes, string...)")
	}
	s, t := ft.val(c.Args[0]), ft.val(c.Args[1])
	comp := vc.compElems(sl.Elem())
	E := vc.get(*h, comp)
	es := vc.sorts.sortOf(sl.Elem())
	k := "(s-len " + t + ")"
	n := vc.define("append.n", "Int", "(+ (s-len "+s+") "+k+")")
	reuse := vc.define("append.reuse", "Bool", "(<= "+n+" (s-cap "+s+"))")
	srcArr := sel(E, "(s-base "+t+")")
	oldArr := sel(E, "(s-base "+s+")")
	top := vc.get(*h, compTop)
	newBase := vc.define("append.base", "Int", top)
	newCap := vc.fresh("append.cap", "Int")
	vc.assume("(>= " + newCap + " " + n + ")")
	var inPlace, freshArr string
	if cnt, ok := ft.staticSliceLen(c.Args[1]); ok && cnt <= 8 {
		inPlace = oldArr
		fa := vc.fresh("append.arr", fmt.Sprintf("(Array Int %s)", es))
		vc.assume(fmt.Sprintf("(forall ((j Int)) (! (=> (and (<= 0 j) (< j (s-len %s))) (= (select %s j) (select %s (sidx (s-off %s) j)))) :pattern ((select %s j))))", s, fa, oldArr, s, fa))
		vc.assume(fmt.Sprintf("(forall ((j Int)) (! (=> (>= j (s-len %s)) (= (select %s j) %s)) :pattern ((select %s j))))", s, fa, vc.sorts.zero(sl.Elem(), vc.lits), fa))
		freshArr = fa
		for j := int64(0); j < cnt; j++ {
			ev := sel(srcArr, fmt.Sprintf("(sidx (s-off %s) %d)", t, j))
			inPlace = sto(inPlace, fmt.Sprintf("(sidx (s-off %s) (+ (s-len %s) %d))", s, s, j), ev)
			freshArr = sto(freshArr, fmt.Sprintf("(+ (s-len %s) %d)", s, j), ev)
		}
	} else {
		ip := vc.fresh("append.inplace", fmt.Sprintf("(Array Int %s)", es))
		vc.assume(fmt.Sprintf("(forall ((j Int)) (! (= (select %s j) (ite (and (<= (+ (s-off %s) (s-len %s)) j) (< j (+ (s-off %s) %s))) (select %s (sidx (s-off %s) (- j (+ (s-off %s) (s-len %s))))) (select %s j))) :pattern ((select %s j))))",
			ip, s, s, s, n, srcArr, t, s, s, oldArr, ip))
		inPlace = ip
		fa := vc.fresh("append.arr", fmt.Sprintf("(Array Int %s)", es))
		vc.assume(fmt.Sprintf("(forall ((j Int)) (! (=> (and (<= 0 j) (< j %s)) (= (select %s j) (ite (< j (s-len %s)) (select %s (sidx (s-off %s) j)) (select %s (sidx (s-off %s) (- j (s-len %s))))))) :pattern ((select %s j))))",
			n, fa, s, oldArr, s, srcArr, t, s, fa))
		vc.assume(fmt.Sprintf("(forall ((j Int)) (! (=> (>= j %s) (= (select %s j) %s)) :pattern ((select %s j))))", n, fa, vc.sorts.zero(sl.Elem(), vc.lits), fa))
		freshArr = fa
	}
	// in-place writes hit the caller-visible backing array: frame obligation unless that array is fresh
	cur := ft.curBlock
	_ = cur
	ft.vc.oblige("frame", ft.siteName("frame.append"), and(reach, reuse, "(> "+k+" 0)"), ft.frameGoal(comp, "(s-base "+s+")"), "append may write in place into a backing array outside modifies", 0)
	vc.set(h, comp, ite(reuse, sto(E, "(s-base "+s+")", inPlace), sto(E, newBase, freshArr)))
	vc.set(h, compTop, ite(reuse, top, "(+ "+top+" 1)"))
	r := vc.define(nameOr(x, "append"), "Slice", ite(reuse,
		fmt.Sprintf("(mk-slice (s-base %s) (s-off %s) %s (s-cap %s))", s, s, n, s),
		fmt.Sprintf("(mk-slice %s 0 %s %s)", newBase, n, newCap)))
	ft.vals[x] = r
}

func (ft *fnTrans) frameGoal(comp, ref string) string {
	if ft.fc.Havocs {
		return "true"
	}
	alts := []string{"(>= " + ref + " " + ft.top0 + ")"}
	for _, m := range ft.modItems {
		if m.comp == comp {
			if m.ref == "" {
				return "true"
			}
			alts = append(alts, eq(ref, m.ref))
		}
	}
	return or(alts...)
}


// detUF: the i-th result of a deterministic library function as an uninterpreted function of its value arguments
func (vc *VC) detUF(key string, i int, argSorts, argTerms []string, resSort string) string {
	fn := q(fmt.Sprintf("uf:%s#%d", key, i))
	if len(argTerms) == 0 {
		vc.global(fn, fmt.Sprintf("(declare-const %s %s)", fn, resSort))
		return fn
	}
	vc.global(fn, fmt.Sprintf("(declare-fun %s (%s) %s)", fn, strings.Join(argSorts, " "), resSort))
	return "(" + fn + " " + strings.Join(argTerms, " ") + ")"
}


// ---- modelled higher-order library helpers taking a function literal ----

func isHigherOrder(key string) bool {
	switch key {
	case "slices.ContainsFunc", "slices.IndexFunc", "slices.SortFunc", "slices.SortStableFunc", "slices.Contains", "slices.Sort",
		modulePath + "/common/linq.Map", modulePath + "/common/linq.First":
		return true
	}
	return false
}

func (ft *fnTrans) higherOrder(x ssa.Value, key string, c *ssa.CallCommon, h *Heap, reach string) bool {
	if !isHigherOrder(key) {
		return false
	}
	vc := ft.vc
	if key == "slices.Contains" {
		s := ft.val(c.Args[0])
		sl := c.Args[0].Type().Underlying().(*types.Slice)
		comp := vc.compElems(sl.Elem())
		vc.nfresh++
		iv := fmt.Sprintf("i!c%d", vc.nfresh)
		el := sel(sel(vc.get(*h, comp), "(s-base "+s+")"), "(sidx (s-off "+s+") "+iv+")")
		ft.vals[x] = vc.define(nameOr(x, "contains"), "Bool", fmt.Sprintf("(exists ((%s Int)) (and (<= 0 %s) (< %s (s-len %s)) (= %s %s)))", iv, iv, iv, s, el, ft.val(c.Args[1])))
		return true
	}
	var fn *ssa.Function
	var bindings []ssa.Value
	if key != "slices.Sort" {
		var ok bool
		fn, bindings, ok = ft.closureOf(c.Args[1])
		if !ok {
			unsup("%s with a function value that is not a literal", key)
		}
	}
	s := ft.val(c.Args[0])
	sl := c.Args[0].Type().Underlying().(*types.Slice)
	comp := vc.compElems(sl.Elem())
	elemAt := func(hp Heap, i string) string {
		return sel(sel(vc.get(hp, comp), "(s-base "+s+")"), "(sidx (s-off "+s+") "+i+")")
	}
	vc.nfresh++
	iv := fmt.Sprintf("i!c%d", vc.nfresh)
	jv := fmt.Sprintf("j!c%d", vc.nfresh)
	inRange := func(v string) string { return and("(<= 0 "+v+")", "(< "+v+" (s-len "+s+"))") }
	vc.assumed["modelled library helper: "+key+" (closure body evaluated in place)"] = true
	switch key {
	case modulePath + "/common/linq.Map":
		// a fresh slice of the same length whose i-th element is f(in[i]) (f: a literal without effects)
		rt := c.Signature().Results().At(0).Type().Underlying().(*types.Slice)
		base := ft.newRef(h, "alloc")
		res := vc.define(nameOr(x, "linqmap"), "Slice", fmt.Sprintf("(mk-slice %s 0 (s-len %s) (s-len %s))", base, s, s))
		rc := vc.compElems(rt.Elem())
		oldT := vc.get(*h, rc)
		newT := vc.havoc(h, rc)
		vc.assume(fmt.Sprintf("(forall ((r Int)) (! (=> (not (= r %s)) (= (select %s r) (select %s r))) :pattern ((select %s r))))", base, newT, oldT, newT))
		fi := ft.evalClosure(fn, bindings, []string{elemAt(*h, iv)}, *h)
		vc.assume(fmt.Sprintf("(forall ((%s Int)) (! (=> %s (= (select (select %s %s) %s) %s)) :pattern ((select (select %s %s) %s))))", iv, inRange(iv), newT, base, iv, fi, newT, base, iv))
		ft.vals[x] = res
	case modulePath + "/common/linq.First":
		// nil when no element matches, otherwise a pointer to a fresh copy of the first matching element
		idx := vc.fresh(nameOr(x, "first")+".idx", "Int")
		pr := ft.evalClosure(fn, bindings, []string{elemAt(*h, idx)}, *h)
		pj := ft.evalClosure(fn, bindings, []string{elemAt(*h, jv)}, *h)
		vc.assume(and("(<= (- 1) "+idx+")", "(< "+idx+" (s-len "+s+"))"))
		vc.assume(implies("(>= "+idx+" 0)", pr))
		vc.assume(fmt.Sprintf("(forall ((%s Int)) (=> (and (<= 0 %s) (< %s (s-len %s)) (or (< %s 0) (< %s %s))) (not %s)))", jv, jv, jv, s, idx, jv, idx, pj))
		cell := ft.newRef(h, "alloc")
		found := elemAt(*h, idx)
		if st, ok := sl.Elem().Underlying().(*types.Struct); ok {
			for i := 0; i < st.NumFields(); i++ {
				fc := vc.compField(sl.Elem(), i)
				vc.set(h, fc, sto(vc.get(*h, fc), cell, vc.sorts.structGet(sl.Elem(), i, found)))
			}
		} else {
			cc := vc.compCell(sl.Elem())
			vc.set(h, cc, sto(vc.get(*h, cc), cell, found))
		}
		ft.vals[x] = vc.define(nameOr(x, "first"), "Int", ite("(>= "+idx+" 0)", cell, "0"))
	case "slices.ContainsFunc":
		p := ft.evalClosure(fn, bindings, []string{elemAt(*h, iv)}, *h)
		ft.vals[x] = vc.define(nameOr(x, "contains"), "Bool", fmt.Sprintf("(exists ((%s Int)) %s)", iv, and(inRange(iv), p)))
	case "slices.IndexFunc":
		r := vc.fresh(nameOr(x, "index"), "Int")
		pr := ft.evalClosure(fn, bindings, []string{elemAt(*h, r)}, *h)
		pj := ft.evalClosure(fn, bindings, []string{elemAt(*h, jv)}, *h)
		vc.assume(and("(<= (- 1) "+r+")", "(< "+r+" (s-len "+s+"))"))
		vc.assume(implies("(>= "+r+" 0)", pr))
		vc.assume(fmt.Sprintf("(forall ((%s Int)) (=> (and (<= 0 %s) (< %s (s-len %s)) (or (< %s 0) (< %s %s))) (not %s)))", jv, jv, jv, s, r, jv, r, pj))
		ft.vals[x] = r
	case "slices.SortFunc", "slices.SortStableFunc", "slices.Sort":
		// in-place: the backing array of s changes inside [off, off+len); result sorted (adjacent pairs) and
		// every element of the result occurs in the input and vice versa (assumed contract of the library sort)
		ft.vc.oblige("frame", ft.siteName("frame.sort"), and(reach, "(> (s-len "+s+") 1)"), ft.frameGoal(comp, "(s-base "+s+")"), "in-place sort writes a backing array outside modifies", 0)
		pre := h.clone()
		oldT := vc.get(*h, comp)
		newT := vc.havoc(h, comp)
		vc.assume(fmt.Sprintf("(forall ((r Int)) (! (=> (not (= r (s-base %s))) (= (select %s r) (select %s r))) :pattern ((select %s r))))", s, newT, oldT, newT))
		vc.assume(fmt.Sprintf("(forall ((%s Int)) (! (=> (or (< %s (s-off %s)) (>= %s (+ (s-off %s) (s-len %s)))) (= (select (select %s (s-base %s)) %s) (select (select %s (s-base %s)) %s))) :pattern ((select (select %s (s-base %s)) %s))))",
			iv, iv, s, iv, s, s, newT, s, iv, oldT, s, iv, newT, s, iv))
		if key == "slices.Sort" {
			// natural order of the element type (strings and integers)
			var ordered string
			switch {
			case isString(sl.Elem()):
				ordered = not("(slt " + elemAt(*h, "(+ "+iv+" 1)") + " " + elemAt(*h, iv) + ")")
			case isInteger(sl.Elem()):
				ordered = "(<= " + elemAt(*h, iv) + " " + elemAt(*h, "(+ "+iv+" 1)") + ")"
			default:
				unsup("slices.Sort over %s", sl.Elem())
			}
			vc.assume(fmt.Sprintf("(forall ((%s Int)) (=> (and (<= 0 %s) (< (+ %s 1) (s-len %s))) %s))", iv, iv, iv, s, ordered))
		} else {
			cmpAdj := ft.evalClosure(fn, bindings, []string{elemAt(*h, iv), elemAt(*h, "(+ "+iv+" 1)")}, pre)
			vc.assume(fmt.Sprintf("(forall ((%s Int)) (=> (and (<= 0 %s) (< (+ %s 1) (s-len %s))) (<= %s 0)))", iv, iv, iv, s, cmpAdj))
		}
		vc.assume(fmt.Sprintf("(forall ((%s Int)) (=> %s (exists ((%s Int)) (and %s (= %s %s)))))", iv, inRange(iv), jv, inRange(jv), elemAt(*h, iv), elemAt(pre, jv)))
		vc.assume(fmt.Sprintf("(forall ((%s Int)) (=> %s (exists ((%s Int)) (and %s (= %s %s)))))", iv, inRange(iv), jv, inRange(jv), elemAt(pre, iv), elemAt(*h, jv)))
		vc.assumeClosed(*h, comp)
	}
	return true
}


// preserveLocals: a callee cannot reach non-escaping locals of the caller (go/ssa marks them Heap=false),
// so their contents survive a havoc of the whole heap.
func (ft *fnTrans) preserveLocals(pre Heap, h *Heap) {
	vc := ft.vc
	for v, r := range ft.vals {
		a, ok := v.(*ssa.Alloc)
		if !ok || a.Heap {
			continue
		}
		for _, c := range ft.objectComps(a.Type().(*types.Pointer).Elem()) {
			vc.assume(eq(sel(vc.get(*h, c), r), sel(vc.get(pre, c), r)))
		}
	}
}


// requireEmitAllowed: a function that (transitively) causes an event must say so in its own contract.
func (ft *fnTrans) requireEmitAllowed(event, reach string) {
	for _, e := range ft.fc.Emits {
		if e.Event == event {
			return
		}
	}
	for _, e := range ft.fc.MayEmit {
		if e == event {
			return
		}
	}
	if ed := ft.vc.P.cs.Events[event]; ed != nil && ed.Local {
		// a local event is a modelling device of one subsystem: callers whose contract does not mention it need not
		// declare it (the repository-wide closure check demands the declaration from every function that lies
		// between a function mentioning the event and a function causing it)
		mentioned := false
		for _, cl := range append(append([]Clause{}, ft.fc.Ensures...), ft.fc.Requires...) {
			if strings.Contains(cl.Src, event) {
				mentioned = true
			}
		}
		if !mentioned {
			return
		}
	}
	ft.vc.oblige("frame", ft.siteName("frame.event"), reach, "false", "callee causes event "+event+" but the contract has no `mayemit "+event+"`", 0)
}


// a caller of a heap-havocking callee must itself be declared havocs (its own callers then lose all heap knowledge)
func (ft *fnTrans) frameCheckHavocs(reach string) {
	if ft.fc.Havocs || ft.fn.Synthetic == "package initializer" {
		// (a package initialiser first runs the initialisers of its imports; nobody calls it)
		return
	}
	ft.vc.oblige("frame", ft.siteName("frame.havocs"), reach, "false", "callee is declared `havocs`; the caller's contract must be too", 0)
}


type interiorArg struct {
	loc *Loc
	ref string
	ty  types.Type
}

// materialize: a fresh object/cell holding the current content of an interior location
func (ft *fnTrans) materialize(l *Loc, ptrTy types.Type, h *Heap) string {
	vc := ft.vc
	elem := ptrTy.Underlying().(*types.Pointer).Elem()
	r := ft.newRef(h, "alloc")
	v := ft.load(l, *h)
	if st, ok := elem.Underlying().(*types.Struct); ok {
		for i := 0; i < st.NumFields(); i++ {
			c := vc.compField(elem, i)
			vc.set(h, c, sto(vc.get(*h, c), r, vc.sorts.structGet(elem, i, v)))
		}
		return r
	}
	c := vc.compCell(elem)
	vc.set(h, c, sto(vc.get(*h, c), r, v))
	return r
}

func (ft *fnTrans) copyOut(ia interiorArg, h *Heap) {
	vc := ft.vc
	elem := ia.ty.Underlying().(*types.Pointer).Elem()
	var v string
	if _, ok := elem.Underlying().(*types.Struct); ok {
		v = loadObject(vc, *h, elem, ia.ref)
	} else {
		v = sel(vc.get(*h, vc.compCell(elem)), ia.ref)
	}
	cur := ft.load(ia.loc, *h)
	if cur == v {
		return
	}
	// only write back when the callee could have changed the cell (otherwise the value is provably the same
	// and the store would demand a frame permission the caller does not need)
	changed := vc.define("copyout.changed", "Bool", not(eq(cur, v)))
	saveReach := ft.reach[ft.curBlock.Index]
	ft.reach[ft.curBlock.Index] = and(saveReach, changed)
	hh := h.clone()
	ft.store(ia.loc, &hh, v)
	ft.reach[ft.curBlock.Index] = saveReach
	// merge: if unchanged keep h, else hh
	merged := vc.merge([]heapEdge{{changed, hh}, {"true", *h}})
	*h = merged
}


// boxedArgs: for interface-typed arguments built by boxing a pointer at the call site, the pointee type
func (ft *fnTrans) boxedArgs(c *ssa.CallCommon, names []string) map[string]types.Type {
	out := map[string]types.Type{}
	off := 0
	if c.IsInvoke() {
		off = 1
	}
	for j, a := range c.Args {
		if mi, ok := a.(*ssa.MakeInterface); ok {
			if pt, ok := mi.X.Type().Underlying().(*types.Pointer); ok && j+off < len(names) {
				out[names[j+off]] = pt.Elem()
			}
		}
	}
	return out
}


// compsReachable: heap components that objects reachable from a value of type t live in (bounded depth)
func (ft *fnTrans) compsReachable(t types.Type, depth int, out map[string]bool) {
	if depth < 0 {
		return
	}
	vc := ft.vc
	t = types.Unalias(t)
	switch u := t.Underlying().(type) {
	case *types.Pointer:
		for _, c := range ft.objectComps(u.Elem()) {
			out[c] = true
		}
		ft.compsReachable(u.Elem(), depth-1, out)
	case *types.Slice:
		out[vc.compElems(u.Elem())] = true
		ft.compsReachable(u.Elem(), depth-1, out)
	case *types.Map:
		out[vc.compMapVal(u)] = true
		ft.compsReachable(u.Elem(), depth-1, out)
	case *types.Struct:
		for i := 0; i < u.NumFields(); i++ {
			ft.compsReachable(u.Field(i).Type(), depth-1, out)
		}
	}
}
