package main

// Native model of github.com/deckarep/golang-set/v2.Set[T] (an interface; NewSet returns a pointer wrapped in it).
// Only membership is modelled: the content of a set object is a map[T]struct{} domain keyed by the reference the
// interface value carries. NewSet(vals...) = exactly the values, Contains(vals...) = all of them are members,
// Add = insert (result: was absent), Remove = delete, ToSlice = a fresh slice holding each member exactly once in
// some order, Cardinality = some non-negative number. Assumed, listed in evidence.

import (
	"fmt"
	"go/types"
	"strings"

	"golang.org/x/tools/go/ssa"
)

const msPkg = "github.com/deckarep/golang-set/v2"

func isMsKey(key string) bool {
	switch key {
	case msPkg + ".NewSet", msPkg + ".Set.Contains", msPkg + ".Set.ContainsOne", msPkg + ".Set.Add", msPkg + ".Set.Remove", msPkg + ".Set.ToSlice", msPkg + ".Set.Cardinality":
		return true
	}
	return false
}

// msElem: the element type of a mapset.Set[T] (or nil).
func msElem(t types.Type) types.Type {
	n, ok := types.Unalias(t).(*types.Named)
	if !ok || n.Obj().Pkg() == nil || n.Obj().Pkg().Path() != msPkg || n.Obj().Name() != "Set" {
		return nil
	}
	ta := n.TypeArgs()
	if ta == nil || ta.Len() != 1 {
		return nil
	}
	return ta.At(0)
}

func isNilConst(v ssa.Value) bool {
	c, ok := v.(*ssa.Const)
	return ok && c.Value == nil
}

func msMap(elem types.Type) *types.Map {
	return types.NewMap(elem, types.NewStruct(nil, nil))
}

// msRef: the reference of the set object behind an interface term
func msRef(term string) string {
	if strings.HasPrefix(term, "(mk-iface ") && strings.HasSuffix(term, ")") {
		inner := strings.TrimSuffix(strings.TrimPrefix(term, "(mk-iface "), ")")
		if i := strings.Index(inner, " "); i > 0 && !strings.ContainsAny(inner[i+1:], " ()") {
			return inner[i+1:]
		}
	}
	return "(i-ref " + term + ")"
}

func (ft *fnTrans) msWrites(key string, c *ssa.CallCommon) []string {
	vc := ft.vc
	switch key {
	case msPkg + ".NewSet":
		if el := msElem(c.Signature().Results().At(0).Type()); el != nil {
			return []string{compTop, vc.compMapDom(msMap(el))}
		}
		return []string{compTop}
	case msPkg + ".Set.Add", msPkg + ".Set.Remove":
		if el := msElem(c.Value.Type()); el != nil {
			return []string{vc.compMapDom(msMap(el))}
		}
	case msPkg + ".Set.ToSlice":
		if el := msElem(c.Value.Type()); el != nil {
			return []string{compTop, vc.compElems(el)}
		}
	}
	return nil
}

// varargsElems: when v is the slice the compiler builds for a variadic call (`new [n]T (varargs)`, one store per
// index, sliced whole), the stored values in index order; otherwise nil.
func varargsElems(v ssa.Value) []ssa.Value {
	sl, ok := v.(*ssa.Slice)
	if !ok || sl.Low != nil || sl.High != nil {
		return nil
	}
	al, ok := sl.X.(*ssa.Alloc)
	if !ok || al.Comment != "varargs" {
		return nil
	}
	arr, ok := al.Type().(*types.Pointer).Elem().Underlying().(*types.Array)
	if !ok {
		return nil
	}
	out := make([]ssa.Value, arr.Len())
	for _, ref := range *al.Referrers() {
		ia, ok := ref.(*ssa.IndexAddr)
		if !ok {
			continue
		}
		c, ok := ia.Index.(*ssa.Const)
		if !ok {
			return nil
		}
		idx := int(c.Int64())
		for _, r2 := range *ia.Referrers() {
			if st, ok := r2.(*ssa.Store); ok && st.Addr == ia {
				if idx < 0 || idx >= len(out) || out[idx] != nil {
					return nil
				}
				out[idx] = st.Val
			}
		}
	}
	for _, o := range out {
		if o == nil {
			return nil
		}
	}
	return out
}

func (ft *fnTrans) msCall(x ssa.Value, key string, c *ssa.CallCommon, h *Heap, reach string) bool {
	if !isMsKey(key) {
		return false
	}
	vc := ft.vc
	vc.assumed["golang-set Set[T] modelled as an abstract membership set (NewSet = exactly the given values, Contains, Add, Remove, ToSlice = each member once in some order)"] = true
	elemOf := func(s, i string, el types.Type) string {
		return sel(sel(vc.get(*h, vc.compElems(el)), "(s-base "+s+")"), "(sidx (s-off "+s+") "+i+")")
	}
	if key == msPkg+".NewSet" {
		res := c.Signature().Results().At(0).Type()
		el := msElem(res)
		if el == nil {
			unsup("mapset.NewSet of %v", res)
		}
		vals := ft.val(c.Args[0])
		r := ft.newRef(h, "alloc")
		d := vc.compMapDom(msMap(el))
		if given := varargsElems(c.Args[0]); given != nil || isNilConst(c.Args[0]) {
			// the members are spelled out at the call site: a ground definition
			content := fmt.Sprintf("((as const (Array %s Bool)) false)", vc.sorts.sortOf(el))
			for _, g := range given {
				content = sto(content, ft.val(g), "true")
			}
			vc.set(h, d, sto(vc.get(*h, d), r, content))
			ft.vals[x] = fmt.Sprintf("(mk-iface %d %s)", vc.sorts.tagOf(res), r)
			return true
		}
		content := vc.fresh("mset.content", fmt.Sprintf("(Array %s Bool)", vc.sorts.sortOf(el)))
		vc.nfresh++
		xv, iv := fmt.Sprintf("x!m%d", vc.nfresh), fmt.Sprintf("i!m%d", vc.nfresh)
		inRange := and("(<= 0 "+iv+")", "(< "+iv+" (s-len "+vals+"))")
		vc.assume(fmt.Sprintf("(forall ((%s %s)) (! (= (select %s %s) (exists ((%s Int)) (and %s (= %s %s)))) :pattern ((select %s %s))))",
			xv, vc.sorts.sortOf(el), content, xv, iv, inRange, elemOf(vals, iv, el), xv, content, xv))
		// (the other direction as a ground-friendly fact: every given value is a member)
		vc.assume(fmt.Sprintf("(forall ((%s Int)) (! (=> %s (select %s %s)) :pattern (%s)))", iv, inRange, content, elemOf(vals, iv, el), elemOf(vals, iv, el)))
		vc.set(h, d, sto(vc.get(*h, d), r, content))
		ft.vals[x] = fmt.Sprintf("(mk-iface %d %s)", vc.sorts.tagOf(res), r)
		return true
	}
	el := msElem(c.Value.Type())
	if el == nil {
		unsup("%s on %v", key, c.Value.Type())
	}
	sv := ft.val(c.Value)
	ft.safe("nil", reach, not(eq(sv, "(mk-iface 0 0)")), "method call on nil set ("+c.Method.Name()+")", c.Pos())
	r := msRef(sv)
	d := vc.compMapDom(msMap(el))
	switch key {
	case msPkg + ".Set.Contains":
		if given := varargsElems(c.Args[0]); given != nil {
			var cs []string
			for _, g := range given {
				cs = append(cs, sel(sel(vc.get(*h, d), r), ft.val(g)))
			}
			ft.vals[x] = vc.define(nameOr(x, "contains"), "Bool", and(cs...))
			return true
		}
		vals := ft.val(c.Args[0])
		vc.nfresh++
		iv := fmt.Sprintf("i!m%d", vc.nfresh)
		ft.vals[x] = vc.define(nameOr(x, "contains"), "Bool", fmt.Sprintf("(forall ((%s Int)) (=> (and (<= 0 %s) (< %s (s-len %s))) (select %s %s)))",
			iv, iv, iv, vals, sel(vc.get(*h, d), r), elemOf(vals, iv, el)))
	case msPkg + ".Set.ContainsOne":
		ft.vals[x] = vc.define(nameOr(x, "contains"), "Bool", sel(sel(vc.get(*h, d), r), ft.val(c.Args[0])))
	case msPkg + ".Set.Add":
		v := ft.val(c.Args[0])
		ft.frameCheck(d, r, ft.isFreshRef(r))
		was := sel(sel(vc.get(*h, d), r), v)
		if x != nil {
			ft.vals[x] = vc.define(nameOr(x, "added"), "Bool", not(was))
		}
		vc.set(h, d, sto(vc.get(*h, d), r, sto(sel(vc.get(*h, d), r), v, "true")))
	case msPkg + ".Set.Remove":
		v := ft.val(c.Args[0])
		ft.frameCheck(d, r, ft.isFreshRef(r))
		vc.set(h, d, sto(vc.get(*h, d), r, sto(sel(vc.get(*h, d), r), v, "false")))
	case msPkg + ".Set.ToSlice":
		base := ft.newRef(h, "alloc")
		n := vc.fresh(nameOr(x, "toslice")+".len", "Int")
		vc.assume("(>= " + n + " 0)")
		s := vc.define(nameOr(x, "toslice"), "Slice", fmt.Sprintf("(mk-slice %s 0 %s %s)", base, n, n))
		e := vc.compElems(el)
		oldE := vc.get(*h, e)
		newE := vc.havoc(h, e)
		// (only the fresh backing array is new: every other array keeps its content)
		vc.assume(fmt.Sprintf("(forall ((r Int)) (! (=> (not (= r %s)) (= (select %s r) (select %s r))) :pattern ((select %s r))))", base, newE, oldE, newE))
		ft.vals[x] = s
		vc.nfresh++
		iv, jv, xv := fmt.Sprintf("i!m%d", vc.nfresh), fmt.Sprintf("j!m%d", vc.nfresh), fmt.Sprintf("x!m%d", vc.nfresh)
		inR := func(v string) string { return and("(<= 0 "+v+")", "(< "+v+" "+n+")") }
		content := sel(vc.get(*h, d), r)
		vc.assume(fmt.Sprintf("(forall ((%s Int)) (=> %s (select %s %s)))", iv, inR(iv), content, elemOf(s, iv, el)))
		vc.assume(fmt.Sprintf("(forall ((%s %s)) (=> (select %s %s) (exists ((%s Int)) (and %s (= %s %s)))))", xv, vc.sorts.sortOf(el), content, xv, iv, inR(iv), elemOf(s, iv, el), xv))
		vc.assume(fmt.Sprintf("(forall ((%s Int) (%s Int)) (=> (and %s %s (not (= %s %s))) (not (= %s %s))))", iv, jv, inR(iv), inR(jv), iv, jv, elemOf(s, iv, el), elemOf(s, jv, el)))
	case msPkg + ".Set.Cardinality":
		n := vc.fresh(nameOr(x, "card"), "Int")
		vc.assume("(>= " + n + " 0)")
		ft.vals[x] = n
	}
	return true
}
