package main

import (
	"fmt"
	"go/token"
	"go/types"
	"os"
	"sort"
	"strings"

	"golang.org/x/tools/go/packages"
	"golang.org/x/tools/go/ssa"
	"golang.org/x/tools/go/ssa/ssautil"
)

type Prog struct {
	root      string
	fset      *token.FileSet
	pkgs      []*packages.Package
	all       map[string]*packages.Package
	ssaProg   *ssa.Program
	cs        *ContractSet
	pkgByName map[string][]*types.Package
	loadErrs  []string
}

func loadProgAt(root string, cs *ContractSet, patterns []string) (*Prog, error) {
	p, err := loadProg(root, cs, patterns)
	return p, err
}

func loadProg(root string, cs *ContractSet, patterns []string) (*Prog, error) {
	cfg := &packages.Config{
		Mode:       packages.LoadAllSyntax,
		Dir:        root,
		BuildFlags: []string{"-tags=verif"},
		Env:        append(os.Environ(), "GOFLAGS=-mod=mod", "GOPROXY=off"),
	}
	pkgs, err := packages.Load(cfg, patterns...)
	if err != nil {
		return nil, err
	}
	p := &Prog{root: root, pkgs: pkgs, cs: cs, all: map[string]*packages.Package{}, pkgByName: map[string][]*types.Package{}}
	packages.Visit(pkgs, nil, func(pk *packages.Package) {
		p.all[pk.PkgPath] = pk
		if pk.Types != nil {
			p.pkgByName[pk.Types.Name()] = append(p.pkgByName[pk.Types.Name()], pk.Types)
		}
		for _, e := range pk.Errors {
			if strings.HasPrefix(pk.PkgPath, modulePath) || strings.HasPrefix(pk.PkgPath, "fxproj") {
				p.loadErrs = append(p.loadErrs, e.Error())
			}
		}
	})
	for _, l := range p.pkgByName {
		sort.Slice(l, func(i, j int) bool {
			// prefer repo packages, then shorter paths
			ri, rj := strings.HasPrefix(l[i].Path(), modulePath), strings.HasPrefix(l[j].Path(), modulePath)
			if ri != rj {
				return ri
			}
			return len(l[i].Path()) < len(l[j].Path())
		})
	}
	if len(pkgs) > 0 {
		p.fset = pkgs[0].Fset
	}
	prog, _ := ssautil.AllPackages(pkgs, ssa.InstantiateGenerics|ssa.GlobalDebug)
	prog.Build()
	p.ssaProg = prog
	return p, nil
}

func (p *Prog) typesPkg(path string) *types.Package {
	if pk, ok := p.all[path]; ok {
		return pk.Types
	}
	return nil
}

// lookupFunc finds the types.Func for "pkgpath.Name" or "pkgpath.Recv.Name".
func (p *Prog) lookupFunc(key string) *types.Func {
	// longest package-path prefix match
	var best string
	for path := range p.all {
		if strings.HasPrefix(key, path+".") && len(path) > len(best) {
			best = path
		}
	}
	if best == "" {
		return nil
	}
	rest := key[len(best)+1:]
	pkg := p.all[best].Types
	parts := strings.Split(rest, ".")
	switch len(parts) {
	case 1:
		if f, ok := pkg.Scope().Lookup(parts[0]).(*types.Func); ok {
			return f
		}
	case 2:
		tn, ok := pkg.Scope().Lookup(parts[0]).(*types.TypeName)
		if !ok {
			return nil
		}
		obj, _, _ := types.LookupFieldOrMethod(types.NewPointer(tn.Type()), true, pkg, parts[1])
		if f, ok := obj.(*types.Func); ok {
			return f
		}
	}
	return nil
}

func (p *Prog) ssaFunc(key string) *ssa.Function {
	if strings.HasSuffix(key, ".init") {
		// the package initialiser (global variable initialisers in dependency order)
		if pk, ok := p.all[strings.TrimSuffix(key, ".init")]; ok {
			if sp := p.ssaProg.Package(pk.Types); sp != nil {
				return sp.Func("init")
			}
		}
	}
	f := p.lookupFunc(key)
	if f == nil {
		return nil
	}
	return p.ssaProg.FuncValue(f)
}

func (p *Prog) describe() string {
	return fmt.Sprintf("%d packages", len(p.all))
}

func typesNewPointer(t types.Type) types.Type { return types.NewPointer(t) }
