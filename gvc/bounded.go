package main

type boundedResult struct {
	Name       string
	Bound      string
	Cases      int64
	Exhaustive bool
	OK         bool
	Seconds    float64
	Replay     string
	KnownLines []string
}

func runBounded(o *runOpts, name string) boundedResult {
	if name == "rendered_gate" {
		return runRenderedGate(o)
	}
	return runBoundedHarness(o, name)
}
