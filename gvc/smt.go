package main

import (
	"fmt"
	"go/types"
	"sort"
	"strings"
)

// ---------- SMT prelude ----------

const prelude = `(set-option :produce-models true)
(set-logic ALL)
(declare-sort Str 0)
(declare-sort Float 0)
(declare-datatypes ((Slice 0)) (((mk-slice (s-base Int) (s-off Int) (s-len Int) (s-cap Int)))))
(declare-datatypes ((Iface 0)) (((mk-iface (i-tag Int) (i-ref Int)))))
(define-fun nil-slice () Slice (mk-slice 0 0 0 0))
(define-fun nil-iface () Iface (mk-iface 0 0))
(define-fun wf-slice ((s Slice)) Bool (and (<= 0 (s-base s)) (<= 0 (s-off s)) (<= 0 (s-len s)) (<= (s-len s) (s-cap s))))
(declare-fun sidx (Int Int) Int)
(assert (forall ((o Int) (i Int)) (! (= (sidx o i) (+ o i)) :pattern ((sidx o i)))))
(declare-fun slen (Str) Int)
(declare-fun sat (Str Int) Int)
(declare-fun sconcat (Str Str) Str)
(declare-fun ssub (Str Int Int) Str)
(declare-fun slt (Str Str) Bool)
(declare-fun sext (Str Str) Bool)
(declare-fun float.of (Int) Float)
(define-fun godiv ((a Int) (b Int)) Int (ite (>= a 0) (ite (> b 0) (div a b) (- (div a (- b)))) (ite (> b 0) (- (div (- a) b)) (div (- a) (- b)))))
(define-fun gomod ((a Int) (b Int)) Int (- a (* b (godiv a b))))
(assert (forall ((s Str)) (! (>= (slen s) 0) :pattern ((slen s)))))
(assert (forall ((s Str) (i Int)) (! (and (<= 0 (sat s i)) (<= (sat s i) 255)) :pattern ((sat s i)))))
(assert (forall ((s Str) (t Str)) (! (= (slen (sconcat s t)) (+ (slen s) (slen t))) :pattern ((sconcat s t)))))
(assert (forall ((s Str) (t Str) (i Int)) (! (= (sat (sconcat s t) i) (ite (< i (slen s)) (sat s i) (sat t (- i (slen s))))) :pattern ((sat (sconcat s t) i)))))
(assert (forall ((s Str) (a Int) (b Int)) (! (=> (and (<= 0 a) (<= a b) (<= b (slen s))) (= (slen (ssub s a b)) (- b a))) :pattern ((ssub s a b)))))
(assert (forall ((s Str) (a Int) (b Int) (i Int)) (! (=> (and (<= 0 a) (<= a b) (<= b (slen s)) (<= 0 i) (< i (- b a))) (= (sat (ssub s a b) i) (sat s (+ a i)))) :pattern ((sat (ssub s a b) i)))))
(assert (forall ((s Str) (t Str)) (! (=> (sext s t) (=> (and (= (slen s) (slen t)) (forall ((i Int)) (=> (and (<= 0 i) (< i (slen s))) (= (sat s i) (sat t i))))) (= s t))) :pattern ((sext s t)))))
(assert (forall ((s Str)) (! (not (slt s s)) :pattern ((slt s s)))))
(assert (forall ((s Str) (t Str)) (! (or (slt s t) (slt t s) (= s t)) :pattern ((slt s t)))))
(assert (forall ((s Str) (t Str)) (! (not (and (slt s t) (slt t s))) :pattern ((slt s t)))))
(assert (forall ((s Str) (t Str) (u Str)) (! (=> (and (slt s t) (slt t u)) (slt s u)) :pattern ((slt s t) (slt t u)))))
`

// ---------- sort registry ----------

type SortReg struct {
	names     map[string]string // types.TypeString -> smt sort (for structs)
	typeDecls []string          // datatype declarations in dependency order
	structs   map[string]*types.Struct
	tags      map[string]int // dynamic type tags for interfaces
	anon      int
	errs      []string
}

func newSortReg() *SortReg {
	return &SortReg{names: map[string]string{}, structs: map[string]*types.Struct{}, tags: map[string]int{}}
}

func q(s string) string {
	if strings.ContainsAny(s, "|\\") {
		s = strings.NewReplacer("|", "!", "\\", "!").Replace(s)
	}
	return "|" + s + "|"
}

func typeKey(t types.Type) string {
	return types.TypeString(t, func(p *types.Package) string { return p.Path() })
}

func shortTypeKey(t types.Type) string {
	return types.TypeString(t, func(p *types.Package) string {
		path := p.Path()
		path = strings.TrimPrefix(path, modulePath+"/")
		return path
	})
}

func (r *SortReg) tagOf(t types.Type) int {
	k := typeKey(t)
	if v, ok := r.tags[k]; ok {
		return v
	}
	v := len(r.tags) + 1
	r.tags[k] = v
	return v
}

// structName returns a stable display name for a struct type (named or anonymous).
func (r *SortReg) structName(t types.Type) string {
	if n, ok := t.(*types.Named); ok {
		return shortTypeKey(n)
	}
	if a, ok := t.(*types.Alias); ok {
		return r.structName(types.Unalias(a))
	}
	k := typeKey(t)
	if n, ok := r.names["anon:"+k]; ok {
		return n
	}
	r.anon++
	n := fmt.Sprintf("anon%d", r.anon)
	r.names["anon:"+k] = n
	return n
}

// sortOf maps a Go type to an SMT sort, declaring datatypes on demand.
func (r *SortReg) sortOf(t types.Type) string {
	t = types.Unalias(t)
	switch u := t.Underlying().(type) {
	case *types.Basic:
		switch {
		case u.Info()&types.IsBoolean != 0:
			return "Bool"
		case u.Info()&types.IsInteger != 0:
			return "Int"
		case u.Info()&types.IsString != 0:
			return "Str"
		case u.Info()&types.IsFloat != 0:
			return "Float"
		case u.Kind() == types.UnsafePointer:
			return "Int"
		case u.Kind() == types.UntypedNil:
			return "Int"
		}
		return "Int"
	case *types.Pointer, *types.Map, *types.Chan, *types.Signature:
		return "Int"
	case *types.Slice:
		return "Slice"
	case *types.Interface:
		return "Iface"
	case *types.Struct:
		name := r.structName(t)
		sn := q("S:" + name)
		if _, ok := r.structs[name]; ok {
			return sn
		}
		r.structs[name] = u
		var fields []string
		for i := 0; i < u.NumFields(); i++ {
			f := u.Field(i)
			fields = append(fields, fmt.Sprintf("(%s %s)", q(name+"."+fieldName(u, i)), r.sortOf(f.Type())))
		}
		if len(fields) == 0 {
			fields = append(fields, fmt.Sprintf("(%s Int)", q(name+".$empty")))
		}
		r.typeDecls = append(r.typeDecls, fmt.Sprintf("(declare-datatypes ((%s 0)) (((%s %s))))", sn, q("mk:"+name), strings.Join(fields, " ")))
		return sn
	case *types.Array:
		// arrays by value are modelled as SMT arrays Int -> elem
		return fmt.Sprintf("(Array Int %s)", r.sortOf(u.Elem()))
	case *types.Tuple:
		return "Int"
	case *types.TypeParam:
		return "Iface"
	}
	r.errs = append(r.errs, "unsupported type "+t.String())
	return "Int"
}

func fieldName(s *types.Struct, i int) string {
	f := s.Field(i)
	if f.Name() == "_" {
		return fmt.Sprintf("_%d", i)
	}
	return f.Name()
}

// zero value term of a type
func (r *SortReg) zero(t types.Type, lits *Lits) string {
	t = types.Unalias(t)
	switch u := t.Underlying().(type) {
	case *types.Basic:
		switch {
		case u.Info()&types.IsBoolean != 0:
			return "false"
		case u.Info()&types.IsInteger != 0:
			return "0"
		case u.Info()&types.IsString != 0:
			return lits.str("")
		case u.Info()&types.IsFloat != 0:
			return "(float.of 0)"
		}
		return "0"
	case *types.Pointer, *types.Map, *types.Chan, *types.Signature:
		return "0"
	case *types.Slice:
		return "(mk-slice 0 0 0 0)"
	case *types.Interface, *types.TypeParam:
		return "(mk-iface 0 0)"
	case *types.Struct:
		sn := r.sortOf(t)
		_ = sn
		name := r.structName(t)
		var args []string
		for i := 0; i < u.NumFields(); i++ {
			args = append(args, r.zero(u.Field(i).Type(), lits))
		}
		if len(args) == 0 {
			args = append(args, "0")
		}
		return fmt.Sprintf("(%s %s)", q("mk:"+name), strings.Join(args, " "))
	case *types.Array:
		return fmt.Sprintf("((as const %s) %s)", r.sortOf(t), r.zero(u.Elem(), lits))
	}
	return "0"
}

// structGet: accessor application for field i of struct type t on term x
func (r *SortReg) structGet(t types.Type, i int, x string) string {
	r.sortOf(t)
	st := t.Underlying().(*types.Struct)
	// accessor applied to a constructor term: project syntactically (keeps VCs small)
	if mk := "(" + q("mk:"+r.structName(t)) + " "; strings.HasPrefix(x, mk) {
		if args := splitSexprArgs(x[len(mk) : len(x)-1]); len(args) == maxIntS(st.NumFields(), 1) && i < len(args) {
			return args[i]
		}
	}
	return fmt.Sprintf("(%s %s)", q(r.structName(t)+"."+fieldName(st, i)), x)
}

func maxIntS(a, b int) int {
	if a > b {
		return a
	}
	return b
}

// splitSexprArgs splits a space-separated list of s-expressions at top level (|quoted| symbols may contain spaces).
func splitSexprArgs(s string) []string {
	var out []string
	depth := 0
	start := -1
	inBar := false
	for i := 0; i < len(s); i++ {
		c := s[i]
		if inBar {
			if c == '|' {
				inBar = false
			}
			continue
		}
		switch c {
		case '|':
			inBar = true
			if start < 0 {
				start = i
			}
		case '(':
			if start < 0 {
				start = i
			}
			depth++
		case ')':
			depth--
		case ' ':
			if depth == 0 && start >= 0 {
				out = append(out, s[start:i])
				start = -1
			}
		default:
			if start < 0 {
				start = i
			}
		}
	}
	if start >= 0 {
		out = append(out, s[start:])
	}
	return out
}

// structSet: functional update of field i
func (r *SortReg) structSet(t types.Type, i int, x, v string) string {
	r.sortOf(t)
	st := t.Underlying().(*types.Struct)
	name := r.structName(t)
	var args []string
	for j := 0; j < st.NumFields(); j++ {
		if j == i {
			args = append(args, v)
		} else {
			args = append(args, fmt.Sprintf("(%s %s)", q(name+"."+fieldName(st, j)), x))
		}
	}
	return fmt.Sprintf("(%s %s)", q("mk:"+name), strings.Join(args, " "))
}

func (r *SortReg) structMk(t types.Type, args []string) string {
	r.sortOf(t)
	if len(args) == 0 {
		args = []string{"0"}
	}
	return fmt.Sprintf("(%s %s)", q("mk:"+r.structName(t)), strings.Join(args, " "))
}

// ---------- string literals ----------

type Lits struct {
	names map[string]string
	order []string
}

func newLits() *Lits { return &Lits{names: map[string]string{}} }

func (l *Lits) str(s string) string {
	if n, ok := l.names[s]; ok {
		return n
	}
	n := fmt.Sprintf("lit!%d", len(l.order))
	l.names[s] = n
	l.order = append(l.order, s)
	return n
}

func (l *Lits) decls() []string {
	var out []string
	for i, s := range l.order {
		n := fmt.Sprintf("lit!%d", i)
		out = append(out, fmt.Sprintf("(declare-const %s Str) ; %q", n, s))
		out = append(out, fmt.Sprintf("(assert (= (slen %s) %d))", n, len(s)))
		for j := 0; j < len(s); j++ {
			out = append(out, fmt.Sprintf("(assert (= (sat %s %d) %d))", n, j, s[j]))
		}
	}
	if len(l.order) > 1 {
		var ns []string
		for i := range l.order {
			ns = append(ns, fmt.Sprintf("lit!%d", i))
		}
		out = append(out, fmt.Sprintf("(assert (distinct %s))", strings.Join(ns, " ")))
	}
	// every string of length 0 is the empty literal (extensionality instance)
	if n, ok := l.names[""]; ok {
		out = append(out, fmt.Sprintf("(assert (forall ((s Str)) (! (=> (= (slen s) 0) (= s %s)) :pattern ((slen s)))))", n))
	}
	return out
}

// ---------- helpers ----------

func and(xs ...string) string {
	var ys []string
	for _, x := range xs {
		if x == "true" || x == "" {
			continue
		}
		ys = append(ys, x)
	}
	if len(ys) == 0 {
		return "true"
	}
	if len(ys) == 1 {
		return ys[0]
	}
	return "(and " + strings.Join(ys, " ") + ")"
}

func or(xs ...string) string {
	var ys []string
	for _, x := range xs {
		if x == "false" || x == "" {
			continue
		}
		if x == "true" {
			return "true"
		}
		ys = append(ys, x)
	}
	if len(ys) == 0 {
		return "false"
	}
	if len(ys) == 1 {
		return ys[0]
	}
	return "(or " + strings.Join(ys, " ") + ")"
}

func not(x string) string {
	if x == "true" {
		return "false"
	}
	if x == "false" {
		return "true"
	}
	return "(not " + x + ")"
}

func implies(a, b string) string {
	if a == "true" {
		return b
	}
	return "(=> " + a + " " + b + ")"
}

func ite(c, a, b string) string {
	if a == b {
		return a
	}
	if c == "true" {
		return a
	}
	if c == "false" {
		return b
	}
	return "(ite " + c + " " + a + " " + b + ")"
}

func eq(a, b string) string  { return "(= " + a + " " + b + ")" }
func sel(a, i string) string { return "(select " + a + " " + i + ")" }
func sto(a, i, v string) string {
	return "(store " + a + " " + i + " " + v + ")"
}

func intLit(v int64) string {
	if v < 0 {
		return fmt.Sprintf("(- %d)", -v)
	}
	return fmt.Sprintf("%d", v)
}

func sortedKeys[V any](m map[string]V) []string {
	ks := make([]string, 0, len(m))
	for k := range m {
		ks = append(ks, k)
	}
	sort.Strings(ks)
	return ks
}
