package main

import (
	"encoding/json"
	"flag"
	"fmt"
	"os"
	"path/filepath"
	"runtime"
	"sort"
	"strings"
	"sync"
	"time"
)

type runOpts struct {
	repo, verif string
	property    string
	tier        string
	funcFilter  string
	oblFilter   string
	dump        bool
	verbose     bool
	keep        bool
	quickT      time.Duration
	fullT       time.Duration
}

func main() {
	if len(os.Args) < 2 {
		fmt.Fprintln(os.Stderr, "usage: gvc check|dump|list ...")
		os.Exit(2)
	}
	cmd := os.Args[1]
	fs := flag.NewFlagSet(cmd, flag.ExitOnError)
	var o runOpts
	fs.StringVar(&o.repo, "repo", "/repo", "repository root")
	fs.StringVar(&o.verif, "verif", "/verif", "verification root")
	fs.StringVar(&o.property, "property", "", "property id")
	fs.StringVar(&o.tier, "tier", envOr("VERIF_TIER", "quick"), "quick|thorough")
	fs.StringVar(&o.funcFilter, "func", "", "only functions whose key contains this")
	fs.StringVar(&o.oblFilter, "obl", "", "only obligations whose name contains this")
	fs.BoolVar(&o.verbose, "v", false, "verbose")
	fs.BoolVar(&o.keep, "keep", false, "keep failed queries in /verif/.scratch-failed")
	fs.Parse(os.Args[2:])
	if o.tier == "thorough" {
		o.quickT, o.fullT = 5*time.Second, 60*time.Second
	} else {
		o.quickT, o.fullT = 3*time.Second, 12*time.Second
	}
	switch cmd {
	case "check":
		os.Exit(check(&o))
	case "dump":
		o.dump = true
		os.Exit(check(&o))
	case "replay":
		// gvc replay <replay-file>: shows the recorded violation and re-runs the part of the check that produced it
		if fs.NArg() < 1 {
			fmt.Fprintln(os.Stderr, "usage: gvc replay <file.json>")
			os.Exit(2)
		}
		b, err := os.ReadFile(fs.Arg(0))
		if err != nil {
			fmt.Fprintln(os.Stderr, err)
			os.Exit(2)
		}
		var rec map[string]any
		if err := json.Unmarshal(b, &rec); err != nil {
			fmt.Fprintln(os.Stderr, err)
			os.Exit(2)
		}
		for _, k := range []string{"property", "obligation", "bounded_stand_in", "clause", "failures", "reason"} {
			if v, ok := rec[k]; ok && fmt.Sprint(v) != "" {
				fmt.Printf("%s: %v\n", k, truncate(fmt.Sprint(v), 1500))
			}
		}
		if r, ok := rec["replayed_on_real_code"].(map[string]any); ok {
			fmt.Printf("failing input (replayed on the real code): %v\n%v\nobserved: %v\n", r["failing_input"], r["failing_input_setup"], r["observed"])
		}
		o.property, _ = rec["property"].(string)
		if name, ok := rec["bounded_stand_in"].(string); ok && name != "" {
			br := runBounded(&o, name)
			for _, l := range br.KnownLines {
				fmt.Println(l)
			}
			if !br.OK {
				fmt.Printf("VIOLATION property=%s replay=%s\n", o.property, br.Replay)
				os.Exit(1)
			}
			fmt.Println("the bounded stand-in passes on the current tree")
			os.Exit(0)
		}
		if ob, ok := rec["obligation"].(string); ok && strings.Contains(ob, "#") {
			o.oblFilter = ob
			o.funcFilter = ob[:strings.Index(ob, "#")]
			o.property = ""
			os.Exit(check(&o))
		}
		os.Exit(check(&o))
	case "ssa":
		cs, err := loadContracts(o.repo)
		if err != nil {
			fmt.Fprintln(os.Stderr, err)
			os.Exit(2)
		}
		key := o.funcFilter
		if !strings.HasPrefix(key, modulePath) {
			key = modulePath + "/" + key
		}
		pk := key
		for {
			i := strings.LastIndex(pk, ".")
			if i < 0 {
				break
			}
			pk = pk[:i]
			if _, err := os.Stat(filepath.Join(o.repo, strings.TrimPrefix(pk, modulePath+"/"))); err == nil {
				break
			}
		}
		prog, err := loadProg(o.repo, cs, []string{pk})
		if err != nil {
			fmt.Fprintln(os.Stderr, err)
			os.Exit(2)
		}
		fn := prog.ssaFunc(key)
		if fn == nil {
			fmt.Fprintln(os.Stderr, "not found:", key)
			os.Exit(2)
		}
		fn.WriteTo(os.Stdout)
		for _, an := range fn.AnonFuncs {
			an.WriteTo(os.Stdout)
		}
	case "list":
		cs, err := loadContracts(o.repo)
		if err != nil {
			fmt.Fprintln(os.Stderr, err)
			os.Exit(2)
		}
		for _, k := range cs.FuncKeysSorted() {
			fc := cs.Funcs[k]
			fmt.Printf("%s props=%v extern=%v pure=%v requires=%d ensures=%d\n", k, fc.Props, fc.Extern, fc.Pure, len(fc.Requires), len(fc.Ensures))
		}
	default:
		fmt.Fprintln(os.Stderr, "unknown command", cmd)
		os.Exit(2)
	}
}

func envOr(k, d string) string {
	if v := os.Getenv(k); v != "" {
		return v
	}
	return d
}

func hasProp(props []string, p string) bool {
	for _, x := range props {
		if x == p {
			return true
		}
	}
	return false
}

type unitResult struct {
	key   string
	vc    *VC
	unsup []string
}

func check(o *runOpts) int {
	start := time.Now()
	cs, err := loadContracts(o.repo)
	if err != nil {
		fmt.Fprintln(os.Stderr, "contract files:", err)
		return toolingFailure(o, "contract parse error: "+err.Error())
	}
	// select functions
	var keys []string
	pkgSet := map[string]bool{}
	for _, k := range cs.FuncKeysSorted() {
		fc := cs.Funcs[k]
		if fc.Extern || fc.Trusted {
			continue
		}
		if o.property != "" && !hasProp(fc.Props, o.property) {
			continue
		}
		if o.funcFilter != "" && !strings.Contains(k, o.funcFilter) {
			continue
		}
		keys = append(keys, k)
		pkgSet[fc.Pkg] = true
	}
	for _, l := range cs.Lemmas {
		if o.property == "" || hasProp(l.Props, o.property) {
			pkgSet[l.Pkg] = true
		}
	}
	var globalChecks []GlobalCheck
	for _, gc := range cs.Checks {
		if (o.property == "" || hasProp(gc.Props, o.property)) && (o.funcFilter == "" || strings.Contains(gc.Name, o.funcFilter)) {
			globalChecks = append(globalChecks, gc)
			pkgSet[modulePath+"/..."] = true
		}
	}
	if len(keys) == 0 && len(pkgSet) == 0 {
		fmt.Fprintf(os.Stderr, "no contracts for property %q\n", o.property)
		return toolingFailure(o, "no contracts selected")
	}
	// packages whose contract files declare extern contracts are always loaded (their specs are evaluated there)
	for _, k := range cs.FuncKeysSorted() {
		if fc := cs.Funcs[k]; fc.Extern && !cs.Rendered[fc.DeclPkg] {
			pkgSet[fc.DeclPkg] = true
		}
	}
	// every package with a contract file is loaded: specs may refer to spec functions of any of them
	for p := range cs.PkgDirs {
		pkgSet[p] = true
	}
	renderedNeeded := map[string]bool{}
	for p := range pkgSet {
		if cs.Rendered[p] {
			renderedNeeded[p] = true
			delete(pkgSet, p)
		}
	}
	var patterns []string
	for p := range pkgSet {
		patterns = append(patterns, p)
	}
	sort.Strings(patterns)
	prog, err := loadProg(o.repo, cs, patterns)
	if err != nil {
		fmt.Fprintln(os.Stderr, "load:", err)
		return toolingFailure(o, "package load error: "+err.Error())
	}
	loadSecs := time.Since(start).Seconds()
	if len(prog.loadErrs) > 0 {
		for _, e := range prog.loadErrs {
			fmt.Fprintln(os.Stderr, "load error:", e)
		}
		return toolingFailure(o, "repository does not type-check: "+prog.loadErrs[0])
	}

	var rprog *Prog
	if len(renderedNeeded) > 0 {
		var rerr error
		for _, e := range []string{"gin", "echo", "mux", "chi", "fiber"} {
			renderedNeeded["fxproj/out/"+e] = true
		}
		rprog, rerr = loadRendered(o, cs, renderedNeeded)
		renderedProgCache = rprog
		if rerr != nil {
			fmt.Fprintln(os.Stderr, "render:", rerr)
			return toolingFailure(o, "rendering the fixture project failed: "+rerr.Error())
		}
	}
	var units []*unitResult
	for _, k := range keys {
		fc := cs.Funcs[k]
		if cs.Rendered[fc.Pkg] {
			u := &unitResult{key: k}
			if fn := rprog.ssaFunc(k); fn != nil {
				u.vc = translateFunc(rprog, fn, fc)
			} else {
				vc := newVC(rprog, k)
				vc.props = fc.Props
				vc.unsupported("contract-stale: rendered function %s not found", k)
				u.vc = vc
			}
			units = append(units, u)
			continue
		}
		fn := prog.ssaFunc(k)
		u := &unitResult{key: k}
		if fn == nil {
			vc := newVC(prog, strings.TrimPrefix(k, modulePath+"/"))
			vc.props = fc.Props
			vc.unsupported("contract-stale: function %s not found in the repository", k)
			u.vc = vc
		} else {
			u.vc = translateFunc(prog, fn, fc)
		}
		units = append(units, u)
	}
	for _, l := range cs.Lemmas {
		if o.property != "" && !hasProp(l.Props, o.property) {
			continue
		}
		if o.funcFilter != "" && !strings.Contains(l.Name, o.funcFilter) {
			continue
		}
		units = append(units, &unitResult{key: l.Pkg + "#lemma." + l.Name, vc: translateLemma(prog, l)})
	}

	for _, gc := range globalChecks {
		switch gc.Name {
		case "events-closed":
			units = append(units, &unitResult{key: "events#closed", vc: checkEventsClosed(prog, gc)})
		case "template-gate":
			units = append(units, &unitResult{key: "template#gate", vc: checkTemplateGate(prog, gc, o.repo)})
		default:
			vc := newVC(prog, gc.Name)
			vc.unsupported("contract-stale: unknown global check %s", gc.Name)
			units = append(units, &unitResult{key: gc.Name, vc: vc})
		}
	}
	// collect obligations
	var obls []*Obl
	oblVC := map[*Obl]*VC{}
	for _, u := range units {
		for _, ob := range u.vc.obls {
			if o.oblFilter != "" && !strings.Contains(ob.Name, o.oblFilter) {
				continue
			}
			obls = append(obls, ob)
			oblVC[ob] = u.vc
		}
	}
	if o.dump {
		for _, ob := range obls {
			fmt.Printf(";;;; %s  [%s] guard/goal below; src: %s\n", ob.Name, ob.Kind, ob.Src)
			fmt.Println(oblVC[ob].queryFor(ob))
		}
		for _, u := range units {
			for _, s := range u.vc.unsup {
				fmt.Printf(";;;; %s UNSUPPORTED: %s\n", u.key, s)
			}
		}
		return 0
	}

	scratch, err := os.MkdirTemp("", "gvc-")
	if err != nil {
		return toolingFailure(o, err.Error())
	}
	defer os.RemoveAll(scratch)
	// each obligation races four solver processes: a quarter of the cores keeps every racer on a core of its own, so
	// that the time limits mean the same thing in a large run as in a small one
	workers := runtime.NumCPU() / 4
	if workers < 2 {
		workers = 2
	}
	var wg sync.WaitGroup
	sem := make(chan struct{}, workers)
	solveStart := time.Now()
	for i, ob := range obls {
		wg.Add(1)
		sem <- struct{}{}
		go func(i int, ob *Obl) {
			defer wg.Done()
			defer func() { <-sem }()
			qtext := oblVC[ob].queryFor(ob)
			ob.query = qtext
			ob.Result = solve(scratch, i, qtext, o.quickT, o.fullT, ob.Cover)
		}(i, ob)
	}
	wg.Wait()
	// second chance: an obligation that ran out of time while the machine was busy is tried again on its own, with the
	// long time limit (a real failure costs this extra time; at most four obligations are retried)
	retried := 0
	for i, ob := range obls {
		if ob.Cover || ob.Goal == "false" || ob.Result == nil || ob.Result.Status == "unsat" || ob.Result.Status == "sat" || retried >= 4 {
			continue
		}
		retried++
		long := o.fullT * 2
		if long < 30*time.Second {
			long = 30 * time.Second
		}
		r2 := solve(scratch, len(obls)+i, ob.query, o.quickT, long, false)
		r2.Attempts = append(append([]string{}, ob.Result.Attempts...), append([]string{"retry:"}, r2.Attempts...)...)
		if r2.Status == "unsat" || r2.Status == "sat" {
			ob.Result = r2
		} else {
			ob.Result.Attempts = r2.Attempts
		}
	}
	solveSecs := time.Since(solveStart).Seconds()

	rep := buildReport(o, cs, prog, units, obls, loadSecs, solveSecs, time.Since(start).Seconds())
	return rep.finish(o)
}

func toolingFailure(o *runOpts, msg string) int {
	// A run that cannot even generate obligations proves nothing. It is reported as a lost proof:
	// the obligations that discharged on the pinned tree no longer exist.
	if o.property == "" {
		fmt.Fprintln(os.Stderr, "error:", msg)
		return 2
	}
	dir := filepath.Join(o.verif, "replays", o.property)
	os.MkdirAll(dir, 0o755)
	path := filepath.Join(dir, "obligations-not-generated.json")
	b, _ := json.MarshalIndent(map[string]any{"property": o.property, "obligation": "all (obligations could not be generated)", "reason": msg}, "", " ")
	os.WriteFile(path, b, 0o644)
	writeEvidence(o, &evidence{PropertyID: o.property, Tier: o.tier, Level: "other", Violations: 1,
		Coverage: map[string]any{"explanation": "obligations could not be generated: " + msg, "obligations": 0, "discharged": 0}})
	fmt.Printf("VIOLATION property=%s replay=%s no-failing-input-found\n", o.property, path)
	return 1
}
