package main

// Counterexample replay for functions whose inputs are plain values.
//
// A failed obligation over the axiomatised string sort normally ends in `unknown`/timeout (no model). For functions
// whose parameters are strings, integers, booleans and structs of those, the same obligation is re-issued with the
// string sort mapped onto the solvers' native theory of strings (quantified axioms dropped): the solvers then find a
// model within milliseconds. The model is only a *candidate*: it is turned into Go literals, the real function is
// called with them inside the repository package (go test -overlay), and the run decides:
//   - a panic under a satisfied precondition is a failing input of the real code;
//   - for a postcondition, the observed results are substituted into the clause and the solver evaluates it on the
//     concrete values: `unsat` means the clause is false for this real execution.
// Anything else (no model, precondition not satisfied by the model, clause not decided) leaves the violation reported
// with "no-failing-input-found".

import (
	"bufio"
	"encoding/json"
	"fmt"
	"go/types"
	"os"
	"os/exec"
	"path/filepath"
	"sort"
	"strconv"
	"strings"
	"time"
)

const nativePrelude = `(set-option :produce-models true)
(set-logic ALL)
(define-sort Str () String)
(declare-sort Float 0)
(declare-datatypes ((Slice 0)) (((mk-slice (s-base Int) (s-off Int) (s-len Int) (s-cap Int)))))
(declare-datatypes ((Iface 0)) (((mk-iface (i-tag Int) (i-ref Int)))))
(define-fun nil-slice () Slice (mk-slice 0 0 0 0))
(define-fun nil-iface () Iface (mk-iface 0 0))
(define-fun wf-slice ((s Slice)) Bool (and (<= 0 (s-base s)) (<= 0 (s-off s)) (<= 0 (s-len s)) (<= (s-len s) (s-cap s))))
(define-fun sidx ((o Int) (i Int)) Int (+ o i))
(define-fun slen ((s Str)) Int (str.len s))
(define-fun sat ((s Str) (i Int)) Int (str.to_code (str.at s i)))
(define-fun sconcat ((s Str) (t Str)) Str (str.++ s t))
(define-fun ssub ((s Str) (a Int) (b Int)) Str (str.substr s a (- b a)))
(define-fun slt ((s Str) (t Str)) Bool (str.< s t))
(define-fun sext ((s Str) (t Str)) Bool true)
(declare-fun float.of (Int) Float)
(define-fun godiv ((a Int) (b Int)) Int (ite (>= a 0) (ite (> b 0) (div a b) (- (div a (- b)))) (ite (> b 0) (- (div (- a) b)) (div (- a) (- b)))))
(define-fun gomod ((a Int) (b Int)) Int (- a (* b (godiv a b))))
(define-fun scontains ((s Str) (p Str)) Bool (str.contains s p))
(define-fun smatchat ((s Str) (p Str) (k Int)) Bool (and (<= 0 k) (<= (+ k (str.len p)) (str.len s)) (= (str.substr s k (str.len p)) p)))
(define-fun sindex ((s Str) (p Str)) Int (str.indexof s p 0))
(define-fun sprefix ((s Str) (p Str)) Bool (str.prefixof p s))
(define-fun ssuffix ((s Str) (p Str)) Bool (str.suffixof p s))
`

// library functions with a native-theory definition (instead of an uninterpreted symbol) in model-finding queries
var nativeLib = map[string]string{
	"uf:strings.IndexByte#0":  "(define-fun |uf:strings.IndexByte#0| ((s Str) (c Int)) Int (str.indexof s (str.from_code c) 0))",
	"uf:strings.TrimPrefix#0": "(define-fun |uf:strings.TrimPrefix#0| ((s Str) (p Str)) Str (ite (str.prefixof p s) (str.substr s (str.len p) (- (str.len s) (str.len p))) s))",
	"uf:strings.TrimSuffix#0": "(define-fun |uf:strings.TrimSuffix#0| ((s Str) (p Str)) Str (ite (str.suffixof p s) (str.substr s 0 (- (str.len s) (str.len p))) s))",
	"uf:strings.Count#0":      "",
}

type replayParam struct {
	Name string
	Term string
	Ty   types.Type
}

// replayPlan is attached to the VC of a function whose inputs are plain values.
type replayPlan struct {
	vc       *VC
	fnName   string // Go identifier of the function (or method)
	recv     *replayParam
	params   []replayParam
	results  []replayParam // fresh result constants (summary state)
	entryPos int           // vc.lines[:entryPos] = facts about the parameters (no precondition)
	requires []string      // precondition terms (entry state)
	sumStart int           // vc.lines[sumStart:sumEnd] = lines emitted while translating the summary postconditions
	sumEnd   int
	posts    map[string]string // clause name ("post.k" / "post.name") -> term over parameters and result constants
	pkgDir   string            // directory of the package relative to the repository root
	pkg      *types.Package
}

func smtStringLit(s string) string {
	var sb strings.Builder
	sb.WriteByte('"')
	for i := 0; i < len(s); i++ {
		c := s[i]
		switch {
		case c == '"':
			sb.WriteString(`""`)
		case c == '\\' || c < 32 || c > 126:
			fmt.Fprintf(&sb, `\u{%x}`, c)
		default:
			sb.WriteByte(c)
		}
	}
	sb.WriteByte('"')
	return sb.String()
}

// native rendering of a query: string literals become constants of the native theory, quantified assertions are
// dropped (dropAllQuant) or kept only in the obligation's own lines.
func (vc *VC) nativeHeader() []string {
	var out []string
	out = append(out, strings.TrimRight(nativePrelude, "\n"))
	out = append(out, vc.sorts.typeDecls...)
	for i, s := range vc.lits.order {
		out = append(out, fmt.Sprintf("(define-fun lit!%d () Str %s)", i, smtStringLit(s)))
	}
	for _, g := range vc.globals {
		for _, l := range strings.Split(g, "\n") {
			if nativeSkipLine(l, true) {
				continue
			}
			out = append(out, l)
		}
	}
	return out
}

func nativeSkipLine(l string, dropQuant bool) bool {
	t := strings.TrimSpace(l)
	if t == "" {
		return true
	}
	for _, n := range []string{"scontains", "smatchat", "sindex", "sprefix", "ssuffix"} {
		if strings.HasPrefix(t, "(declare-fun "+n+" ") {
			return true
		}
	}
	if dropQuant && strings.HasPrefix(t, "(assert") && (strings.Contains(t, "(forall ") || strings.Contains(t, "(exists ")) {
		return true
	}
	return false
}

func nativeLine(l string) string {
	// library functions with a native definition
	for key, def := range nativeLib {
		if def != "" && strings.HasPrefix(l, "(declare-fun |"+key+"| ") {
			return def
		}
	}
	return l
}

func (vc *VC) nativeQuery(o *Obl, dropQuant bool, extra []string, getValues []string) string {
	var sb strings.Builder
	for _, l := range vc.nativeHeader() {
		sb.WriteString(nativeLine(l))
		sb.WriteByte('\n')
	}
	for _, l := range vc.lines[:o.Pos] {
		if nativeSkipLine(l, dropQuant) {
			continue
		}
		sb.WriteString(nativeLine(l))
		sb.WriteByte('\n')
	}
	sb.WriteString(fmt.Sprintf("(assert (not %s))\n", implies(o.Guard, o.Goal)))
	for _, e := range extra {
		sb.WriteString(e)
		sb.WriteByte('\n')
	}
	sb.WriteString("(check-sat)\n")
	if len(getValues) > 0 {
		sb.WriteString("(get-value (" + strings.Join(getValues, " ") + "))\n")
	}
	return sb.String()
}

// ---- eligibility and plan construction (called at the end of a function's translation) ----

func plainValue(t types.Type, depth int) bool {
	t = types.Unalias(t)
	switch u := t.Underlying().(type) {
	case *types.Basic:
		return u.Info()&(types.IsBoolean|types.IsInteger|types.IsString) != 0
	case *types.Struct:
		if depth <= 0 {
			return false
		}
		for i := 0; i < u.NumFields(); i++ {
			if !plainValue(u.Field(i).Type(), depth-1) {
				return false
			}
		}
		return true
	}
	return false
}

func (ft *fnTrans) buildReplayPlan(entryPos int, requires []string) {
	defer func() { recover() }() // replay is best effort: any failure here only means "no replay"
	fn := ft.fn
	obj, ok := fn.Object().(*types.Func)
	if !ok || obj.Pkg() == nil || fn.Pkg == nil || len(fn.FreeVars) > 0 || fn.Synthetic != "" {
		return
	}
	if !strings.HasPrefix(obj.Pkg().Path(), modulePath) {
		return
	}
	plan := &replayPlan{vc: ft.vc, fnName: obj.Name(), entryPos: entryPos, requires: requires, posts: map[string]string{}, pkg: obj.Pkg(),
		pkgDir: strings.TrimPrefix(strings.TrimPrefix(obj.Pkg().Path(), modulePath), "/")}
	sig := obj.Type().(*types.Signature)
	for i, p := range fn.Params {
		if !plainValue(p.Type(), 3) {
			return
		}
		rp := replayParam{Name: p.Name(), Term: ft.vals[p], Ty: p.Type()}
		if i == 0 && sig.Recv() != nil {
			plan.recv = &rp
		} else {
			plan.params = append(plan.params, rp)
		}
	}
	if sig.Variadic() {
		return
	}
	// summary state: results are fresh constants, heap is the entry heap
	vc := ft.vc
	plan.sumStart = len(vc.lines)
	env := ft.envAt(ft.entry, nil, nil)
	res := sig.Results()
	for i := 0; i < res.Len(); i++ {
		rt := res.At(i).Type()
		c := vc.fresh(fmt.Sprintf("r%d", i), vc.sorts.sortOf(rt))
		plan.results = append(plan.results, replayParam{Name: fmt.Sprintf("result%d", i), Term: c, Ty: rt})
		env.results = append(env.results, TV{c, rt})
		if n := res.At(i).Name(); n != "" && n != "_" {
			env.vars[n] = TV{c, rt}
		}
	}
	if env.old != nil {
		env.old.results = env.results
	}
	for k, e := range ft.fc.Ensures {
		name := fmt.Sprintf("post.%d", k)
		if e.Name != "" {
			name = "post." + e.Name
		}
		func() {
			defer func() { recover() }()
			if t, err := env.Bool(e.Expr); err == nil {
				plan.posts[name] = t
			}
		}()
	}
	plan.sumEnd = len(vc.lines)
	vc.replay = plan
}

// ---- model values ----

type sx struct {
	atom string
	str  bool // atom is a string literal (already unescaped)
	list []*sx
}

func parseSexprs(s string) []*sx {
	var out []*sx
	i := 0
	var parse func() *sx
	skip := func() {
		for i < len(s) && (s[i] == ' ' || s[i] == '\n' || s[i] == '\t' || s[i] == '\r') {
			i++
		}
	}
	parse = func() *sx {
		skip()
		if i >= len(s) {
			return nil
		}
		switch s[i] {
		case '(':
			i++
			n := &sx{}
			for {
				skip()
				if i >= len(s) {
					return n
				}
				if s[i] == ')' {
					i++
					return n
				}
				c := parse()
				if c == nil {
					return n
				}
				n.list = append(n.list, c)
			}
		case '"':
			i++
			var sb strings.Builder
			for i < len(s) {
				if s[i] == '"' {
					if i+1 < len(s) && s[i+1] == '"' {
						sb.WriteByte('"')
						i += 2
						continue
					}
					i++
					break
				}
				sb.WriteByte(s[i])
				i++
			}
			return &sx{atom: unescapeSmt(sb.String()), str: true}
		case '|':
			j := strings.IndexByte(s[i+1:], '|')
			if j < 0 {
				i = len(s)
				return nil
			}
			a := s[i : i+j+2]
			i += j + 2
			return &sx{atom: a}
		}
		st := i
		for i < len(s) && !strings.ContainsRune(" \n\t\r()", rune(s[i])) {
			i++
		}
		return &sx{atom: s[st:i]}
	}
	for {
		n := parse()
		if n == nil {
			break
		}
		out = append(out, n)
	}
	return out
}

// unescapeSmt decodes \u{X}, \uXXXX and \xXX escapes to bytes (code points above 255 are reduced modulo 256:
// Go strings are byte sequences, the replay decides whether the candidate is a real failing input).
func unescapeSmt(s string) string {
	var out []byte
	for i := 0; i < len(s); {
		if s[i] == '\\' && i+1 < len(s) && (s[i+1] == 'u' || s[i+1] == 'x') {
			j := i + 2
			var hex string
			if j < len(s) && s[j] == '{' {
				k := strings.IndexByte(s[j:], '}')
				if k > 0 {
					hex = s[j+1 : j+k]
					j = j + k + 1
				}
			} else if s[i+1] == 'u' && j+4 <= len(s) {
				hex = s[j : j+4]
				j += 4
			} else if s[i+1] == 'x' && j+2 <= len(s) {
				hex = s[j : j+2]
				j += 2
			}
			if v, err := strconv.ParseUint(hex, 16, 32); err == nil && hex != "" {
				out = append(out, byte(v%256))
				i = j
				continue
			}
		}
		out = append(out, s[i])
		i++
	}
	return string(out)
}

func (n *sx) intValue() (int64, bool) {
	if n == nil {
		return 0, false
	}
	if n.list != nil {
		if len(n.list) == 2 && n.list[0].atom == "-" {
			v, ok := n.list[1].intValue()
			return -v, ok
		}
		return 0, false
	}
	v, err := strconv.ParseInt(n.atom, 10, 64)
	return v, err == nil
}

// leaves enumerates the scalar leaves (term, type) of a plain value.
func (vc *VC) plainLeaves(term string, t types.Type) []replayParam {
	t0 := t
	t = types.Unalias(t)
	switch u := t.Underlying().(type) {
	case *types.Struct:
		var out []replayParam
		for i := 0; i < u.NumFields(); i++ {
			out = append(out, vc.plainLeaves(vc.sorts.structGet(t0, i, term), u.Field(i).Type())...)
		}
		return out
	}
	return []replayParam{{Term: term, Ty: t0}}
}

type goGen struct {
	pkg     *types.Package
	imports map[string]string // path -> alias
}

func (g *goGen) qual(p *types.Package) string {
	if p == g.pkg {
		return ""
	}
	if a, ok := g.imports[p.Path()]; ok {
		return a
	}
	a := fmt.Sprintf("vp%d", len(g.imports))
	g.imports[p.Path()] = a
	return a
}

func (g *goGen) typeStr(t types.Type) string { return types.TypeString(t, g.qual) }

func goBytesLit(s string) string {
	var sb strings.Builder
	sb.WriteByte('"')
	for i := 0; i < len(s); i++ {
		c := s[i]
		switch {
		case c == '"' || c == '\\':
			sb.WriteByte('\\')
			sb.WriteByte(c)
		case c < 32 || c > 126:
			fmt.Fprintf(&sb, `\x%02x`, c)
		default:
			sb.WriteByte(c)
		}
	}
	sb.WriteByte('"')
	return sb.String()
}

// goLiteral builds the Go literal of a plain value from its leaf values (consumed in order).
func (g *goGen) goLiteral(t types.Type, vals *[]*sx) (string, bool) {
	t0 := t
	t = types.Unalias(t)
	switch u := t.Underlying().(type) {
	case *types.Basic:
		if len(*vals) == 0 {
			return "", false
		}
		v := (*vals)[0]
		*vals = (*vals)[1:]
		var lit string
		switch {
		case u.Info()&types.IsBoolean != 0:
			if v.atom != "true" && v.atom != "false" {
				return "", false
			}
			lit = v.atom
		case u.Info()&types.IsInteger != 0:
			n, ok := v.intValue()
			if !ok {
				return "", false
			}
			lit = strconv.FormatInt(n, 10)
		case u.Info()&types.IsString != 0:
			if !v.str {
				return "", false
			}
			lit = goBytesLit(v.atom)
		default:
			return "", false
		}
		return g.typeStr(t0) + "(" + lit + ")", true
	case *types.Struct:
		var fs []string
		for i := 0; i < u.NumFields(); i++ {
			f := u.Field(i)
			fl, ok := g.goLiteral(f.Type(), vals)
			if !ok {
				return "", false
			}
			if !f.Exported() && f.Pkg() != g.pkg {
				continue // cannot be set from here: left at its zero value
			}
			if f.Name() == "_" {
				continue
			}
			fs = append(fs, f.Name()+": "+fl)
		}
		return g.typeStr(t0) + "{" + strings.Join(fs, ", ") + "}", true
	}
	return "", false
}

// smtRender returns a Go expression (string-typed) that renders `expr` of type t as an SMT term; values the
// engine cannot observe are rendered with a leading '?'.
func (g *goGen) smtRender(vc *VC, expr string, t types.Type, depth int) string {
	t0 := t
	t = types.Unalias(t)
	switch u := t.Underlying().(type) {
	case *types.Basic:
		switch {
		case u.Info()&types.IsBoolean != 0:
			return "vSmtBool(bool(" + expr + "))"
		case u.Info()&types.IsInteger != 0 && u.Info()&types.IsUnsigned == 0:
			return "vSmtInt(int64(" + expr + "))"
		case u.Info()&types.IsInteger != 0:
			return "vSmtUint(uint64(" + expr + "))"
		case u.Info()&types.IsString != 0:
			return "vSmtStr(string(" + expr + "))"
		}
	case *types.Pointer, *types.Map, *types.Chan, *types.Signature:
		return "vSmtRef(" + expr + " == nil)"
	case *types.Interface:
		return "vSmtIface(" + expr + " == nil)"
	case *types.Slice:
		return "vSmtSlice(len(" + expr + "))"
	case *types.Struct:
		if depth > 0 {
			var parts []string
			ok := true
			for i := 0; i < u.NumFields(); i++ {
				f := u.Field(i)
				if (!f.Exported() && f.Pkg() != g.pkg) || f.Name() == "_" {
					ok = false
					break
				}
				parts = append(parts, g.smtRender(vc, "("+expr+")."+f.Name(), f.Type(), depth-1))
			}
			if ok {
				if len(parts) == 0 {
					parts = []string{`"0"`}
				}
				mk := "(" + q("mk:"+vc.sorts.structName(t0))
				return strconv.Quote(mk+" ") + " + " + strings.Join(parts, ` + " " + `) + ` + ")"`
			}
		}
	}
	return `"?"`
}

const replayHelpers = `
func vSmtBool(b bool) string { if b { return "true" }; return "false" }
func vSmtInt(n int64) string { if n < 0 { return "(- " + strconv.FormatUint(uint64(-(n+1))+1, 10) + ")" }; return strconv.FormatInt(n, 10) }
func vSmtUint(n uint64) string { return strconv.FormatUint(n, 10) }
func vSmtStr(s string) string {
	var sb strings.Builder
	sb.WriteByte('"')
	for i := 0; i < len(s); i++ {
		c := s[i]
		switch {
		case c == '"':
			sb.WriteString("\"\"")
		case c == '\\' || c < 32 || c > 126:
			fmt.Fprintf(&sb, "\\u{%x}", c)
		default:
			sb.WriteByte(c)
		}
	}
	sb.WriteByte('"')
	return sb.String()
}
func vSmtRef(isNil bool) string { if isNil { return "0" }; return "?nonnil-ref" }
func vSmtIface(isNil bool) string { if isNil { return "nil-iface" }; return "?nonnil-iface" }
func vSmtSlice(n int) string { return "?len:" + strconv.Itoa(n) }
`

type replayOutcome struct {
	Reproduced bool
	Info       map[string]any
}

func runModelQuery(scratch, name, query string, timeout time.Duration) (string, string) {
	file := filepath.Join(scratch, name+".smt2")
	os.WriteFile(file, []byte(query), 0o644)
	for _, s := range [][]string{{"z3-new", fmt.Sprintf("-T:%d", int(timeout.Seconds())), file}, {"cvc5", "--strings-exp", fmt.Sprintf("--tlimit=%d", timeout.Milliseconds()), file}} {
		out, _ := exec.Command(s[0], s[1:]...).CombinedOutput()
		first := strings.TrimSpace(strings.SplitN(string(out), "\n", 2)[0])
		if first == "sat" || first == "unsat" {
			return first, string(out)
		}
	}
	return "unknown", ""
}

// tryReplay: candidate input from the native-theory model, executed on the real code.
func tryReplay(o *runOpts, ob *Obl, rep map[string]any) (bool, map[string]any) {
	plan := ob.plan
	if plan == nil || ob.Cover {
		return false, nil
	}
	vc := plan.vc
	scratch, err := os.MkdirTemp("", "gvc-replay-")
	if err != nil {
		return false, nil
	}
	defer os.RemoveAll(scratch)
	// leaves of all inputs
	var inputs []replayParam
	if plan.recv != nil {
		inputs = append(inputs, *plan.recv)
	}
	inputs = append(inputs, plan.params...)
	var leaves []replayParam
	for _, in := range inputs {
		leaves = append(leaves, vc.plainLeaves(in.Term, in.Ty)...)
	}
	var leafTerms []string
	for _, l := range leaves {
		leafTerms = append(leafTerms, l.Term)
	}
	info := map[string]any{"method": "the failed obligation re-issued over the solvers' native theory of strings (quantified axioms dropped) to obtain a candidate model; the candidate is run on the real function inside its package (go test -overlay)"}
	var blocks []string
	var attempts []map[string]any
	for attempt := 0; attempt < 4; attempt++ {
		var st, out string
		for _, drop := range []bool{false, true} {
			if len(leafTerms) == 0 {
				st, out = runModelQuery(scratch, fmt.Sprintf("m%d", attempt), vc.nativeQuery(ob, drop, blocks, nil), 8*time.Second)
			} else {
				st, out = runModelQuery(scratch, fmt.Sprintf("m%d", attempt), vc.nativeQuery(ob, drop, blocks, leafTerms), 8*time.Second)
			}
			if st == "sat" {
				break
			}
		}
		if st != "sat" {
			attempts = append(attempts, map[string]any{"candidate": attempt, "model": "none (" + st + ")"})
			break
		}
		// parse the values
		var vals []*sx
		if len(leafTerms) > 0 {
			rest := strings.SplitN(out, "\n", 2)
			if len(rest) < 2 {
				break
			}
			top := parseSexprs(rest[1])
			if len(top) == 0 || len(top[0].list) != len(leafTerms) {
				break
			}
			for _, pair := range top[0].list {
				if len(pair.list) != 2 {
					return false, nil
				}
				vals = append(vals, pair.list[1])
			}
		}
		// blocking clause for the next candidate
		var eqs []string
		for i, l := range leaves {
			eqs = append(eqs, eq(l.Term, sxToSmt(vals[i])))
		}
		if len(eqs) > 0 {
			blocks = append(blocks, "(assert (not "+and(eqs...)+"))")
		}
		att := plan.runCandidate(o, ob, scratch, attempt, inputs, leaves, vals)
		attempts = append(attempts, att)
		if att["verdict"] == "reproduced" {
			info["candidates"] = attempts
			info["failing_input"] = att["input"]
			info["observed"] = att["observed"]
			info["how_to_rerun"] = att["how_to_rerun"]
			return true, info
		}
		if len(eqs) == 0 {
			break
		}
	}
	info["candidates"] = attempts
	rep["replay_attempts"] = info
	return false, nil
}

func sxToSmt(n *sx) string {
	if n.str {
		return smtStringLit(n.atom)
	}
	if n.list != nil {
		var ps []string
		for _, c := range n.list {
			ps = append(ps, sxToSmt(c))
		}
		return "(" + strings.Join(ps, " ") + ")"
	}
	return n.atom
}

func (plan *replayPlan) runCandidate(o *runOpts, ob *Obl, scratch string, attempt int, inputs, leaves []replayParam, vals []*sx) map[string]any {
	vc := plan.vc
	att := map[string]any{"candidate": attempt}
	g := &goGen{pkg: plan.pkg, imports: map[string]string{}}
	rest := append([]*sx(nil), vals...)
	var args []string
	inputDesc := map[string]string{}
	for _, in := range inputs {
		lit, ok := g.goLiteral(in.Ty, &rest)
		if !ok {
			att["verdict"] = "candidate not expressible as Go literals"
			return att
		}
		args = append(args, lit)
		inputDesc[in.Name] = lit
	}
	att["input"] = inputDesc
	// 1. the candidate must satisfy the precondition (decided on the concrete values)
	var pin []string
	for i, l := range leaves {
		pin = append(pin, "(assert "+eq(l.Term, sxToSmt(vals[i]))+")")
	}
	if len(plan.requires) > 0 {
		var sb strings.Builder
		for _, l := range vc.nativeHeader() {
			sb.WriteString(nativeLine(l) + "\n")
		}
		for _, l := range vc.lines[:plan.entryPos] {
			if !nativeSkipLine(l, true) {
				sb.WriteString(nativeLine(l) + "\n")
			}
		}
		for _, p := range pin {
			sb.WriteString(p + "\n")
		}
		sb.WriteString("(assert " + and(plan.requires...) + ")\n(check-sat)\n")
		if st, _ := runModelQuery(scratch, fmt.Sprintf("pre%d", attempt), sb.String(), 8*time.Second); st != "sat" {
			att["verdict"] = "candidate does not (decidably) satisfy the precondition: " + st
			return att
		}
	}
	// 2. run the real function
	call := plan.fnName + "(" + strings.Join(args, ", ") + ")"
	if plan.recv != nil {
		call = "(" + args[0] + ")." + plan.fnName + "(" + strings.Join(args[1:], ", ") + ")"
	}
	var resNames, renders []string
	for i, r := range plan.results {
		resNames = append(resNames, fmt.Sprintf("r%d", i))
		renders = append(renders, fmt.Sprintf("\tfmt.Println(\"VERIF-REPLAY-RESULT %d \" + %s)", i, g.smtRender(vc, fmt.Sprintf("r%d", i), r.Ty, 3)))
	}
	assign := ""
	if len(resNames) > 0 {
		assign = strings.Join(resNames, ", ") + " := "
	}
	var imps []string
	paths := make([]string, 0, len(g.imports))
	for p := range g.imports {
		paths = append(paths, p)
	}
	sort.Strings(paths)
	for _, p := range paths {
		imps = append(imps, fmt.Sprintf("\t%s %q", g.imports[p], p))
	}
	src := fmt.Sprintf(`package %s

// Generated by gvc: replay of a solver candidate on the real function (never part of the repository).

import (
	"fmt"
	"strconv"
	"strings"
	"testing"
%s
)

var _ = strconv.Itoa
var _ = strings.Contains
%s
func TestVerifReplayCandidate(t *testing.T) {
	defer func() {
		if r := recover(); r != nil {
			fmt.Printf("VERIF-REPLAY-PANIC %%v\n", r)
		}
		fmt.Println("VERIF-REPLAY-DONE")
	}()
	%s%s
%s
}
`, plan.pkg.Name(), strings.Join(imps, "\n"), replayHelpers, assign, call, strings.Join(renders, "\n"))
	testFile := filepath.Join(scratch, fmt.Sprintf("zz_verif_replay_%d_test.go", attempt))
	os.WriteFile(testFile, []byte(src), 0o644)
	target := filepath.Join(o.repo, plan.pkgDir, "zz_verif_replay_candidate_test.go")
	ov, _ := json.Marshal(map[string]map[string]string{"Replace": {target: testFile}})
	ovPath := filepath.Join(scratch, fmt.Sprintf("overlay%d.json", attempt))
	os.WriteFile(ovPath, ov, 0o644)
	cmd := exec.Command("go", "test", "-overlay", ovPath, "-vet=off", "-v", "-count=1", "-timeout=60s", "-run", "^TestVerifReplayCandidate$", "./"+plan.pkgDir)
	cmd.Dir = o.repo
	cmd.Env = append(os.Environ(), "GOFLAGS=-mod=mod", "GOPROXY=off", "GOCACHE="+goCacheDir())
	outB, _ := cmd.CombinedOutput()
	out := string(outB)
	att["how_to_rerun"] = fmt.Sprintf("in package %s of the repository: call %s (the generated test is kept next to this file)", plan.pkgDir, call)
	att["test_source"] = src
	observed := map[string]string{}
	panicked := ""
	done := false
	sc := bufio.NewScanner(strings.NewReader(out))
	sc.Buffer(make([]byte, 1<<20), 1<<20)
	for sc.Scan() {
		line := sc.Text()
		if i := strings.Index(line, "VERIF-REPLAY-PANIC "); i >= 0 {
			panicked = line[i+len("VERIF-REPLAY-PANIC "):]
		}
		if i := strings.Index(line, "VERIF-REPLAY-RESULT "); i >= 0 {
			f := strings.SplitN(line[i+len("VERIF-REPLAY-RESULT "):], " ", 2)
			if len(f) == 2 {
				observed["result"+f[0]] = f[1]
			}
		}
		if strings.Contains(line, "VERIF-REPLAY-DONE") {
			done = true
		}
	}
	if !done {
		if strings.Contains(out, "panic: test timed out") {
			att["verdict"] = "reproduced"
			att["observed"] = "the real function did not return within 60 s on this input"
			return att
		}
		att["verdict"] = "replay harness did not run"
		att["output"] = truncate(out, 2000)
		return att
	}
	if panicked != "" {
		att["verdict"] = "reproduced"
		att["observed"] = "the real function panics on this input (which satisfies its precondition): " + panicked
		return att
	}
	att["observed"] = observed
	if !strings.HasPrefix(ob.Kind, "post") {
		att["verdict"] = "the real function returns normally on this candidate"
		return att
	}
	// 3. evaluate the clause on the observed results
	name := ob.Name[strings.Index(ob.Name, "#")+1:]
	if i := strings.Index(name, "@"); i >= 0 {
		name = name[:i]
	}
	post, ok := plan.posts[name]
	if !ok {
		att["verdict"] = "clause has no summary form"
		return att
	}
	var sb strings.Builder
	for _, l := range vc.nativeHeader() {
		sb.WriteString(nativeLine(l) + "\n")
	}
	for _, l := range vc.lines[:plan.entryPos] {
		if !nativeSkipLine(l, true) {
			sb.WriteString(nativeLine(l) + "\n")
		}
	}
	for _, l := range vc.lines[plan.sumStart:plan.sumEnd] {
		if !nativeSkipLine(l, true) {
			sb.WriteString(nativeLine(l) + "\n")
		}
	}
	for _, p := range pin {
		sb.WriteString(p + "\n")
	}
	for i, r := range plan.results {
		v := observed[fmt.Sprintf("result%d", i)]
		switch {
		case v == "":
		case !strings.Contains(v, "?"):
			sb.WriteString("(assert " + eq(r.Term, v) + ")\n")
		case v == "?nonnil-ref":
			sb.WriteString("(assert (not (= " + r.Term + " 0)))\n")
		case v == "?nonnil-iface":
			sb.WriteString("(assert (not (= " + r.Term + " nil-iface)))\n")
		case strings.HasPrefix(v, "?len:"):
			sb.WriteString("(assert (= (s-len " + r.Term + ") " + strings.TrimPrefix(v, "?len:") + "))\n")
		}
	}
	base := sb.String()
	stPos, _ := runModelQuery(scratch, fmt.Sprintf("post%d", attempt), base+"(assert "+post+")\n(check-sat)\n", 8*time.Second)
	stNeg, _ := runModelQuery(scratch, fmt.Sprintf("npost%d", attempt), base+"(assert (not "+post+"))\n(check-sat)\n", 8*time.Second)
	if stPos == "unsat" && stNeg == "sat" {
		att["verdict"] = "reproduced"
		att["observed"] = map[string]any{"results": observed, "clause": ob.Src, "evaluation": "the clause is false on these concrete inputs and observed results (decided by the solver on ground terms)"}
		return att
	}
	att["verdict"] = fmt.Sprintf("clause not refuted on the observed results (clause: %s, negation: %s)", stPos, stNeg)
	return att
}
