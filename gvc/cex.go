package main

// Counterexample replay for functions whose inputs are plain values.
//
// A failed obligation over the axiomatised string sort normally ends in `unknown`/timeout (no model). For functions
// whose parameters are strings, integers, booleans and structs of those, the same obligation is re-issued with the
// string sort mapped onto the solvers' native theory of strings (quantified axioms dropped): the solvers then find a
// model within milliseconds. The model is only a *candidate*: it is turned into Go literals, the real function is
// called with them inside the repository package (go test -overlay), and the run decides:
//   - a panic under a satisfied precondition is a failing input of the real code;
//   - for a postcondition, the observed results are substituted into the clause and the solver evaluates it on the
//     concrete values: `unsat` means the clause is false for this real execution.
// Anything else (no model, precondition not satisfied by the model, clause not decided) leaves the violation reported
// with "no-failing-input-found".

import (
	"bufio"
	"encoding/json"
	"fmt"
	"go/types"
	"os"
	"os/exec"
	"path/filepath"
	"sort"
	"strconv"
	"strings"
	"time"
)

const nativePrelude = `(set-option :produce-models true)
(set-logic ALL)
(define-sort Str () String)
(declare-sort Float 0)
(declare-datatypes ((Slice 0)) (((mk-slice (s-base Int) (s-off Int) (s-len Int) (s-cap Int)))))
(declare-datatypes ((Iface 0)) (((mk-iface (i-tag Int) (i-ref Int)))))
(define-fun nil-slice () Slice (mk-slice 0 0 0 0))
(define-fun nil-iface () Iface (mk-iface 0 0))
(define-fun wf-slice ((s Slice)) Bool (and (<= 0 (s-base s)) (<= 0 (s-off s)) (<= 0 (s-len s)) (<= (s-len s) (s-cap s))))
(define-fun sidx ((o Int) (i Int)) Int (+ o i))
(define-fun slen ((s Str)) Int (str.len s))
(define-fun sat ((s Str) (i Int)) Int (str.to_code (str.at s i)))
(define-fun sconcat ((s Str) (t Str)) Str (str.++ s t))
(define-fun ssub ((s Str) (a Int) (b Int)) Str (str.substr s a (- b a)))
(define-fun slt ((s Str) (t Str)) Bool (str.< s t))
(define-fun sext ((s Str) (t Str)) Bool true)
(declare-fun float.of (Int) Float)
(define-fun godiv ((a Int) (b Int)) Int (ite (>= a 0) (ite (> b 0) (div a b) (- (div a (- b)))) (ite (> b 0) (- (div (- a) b)) (div (- a) (- b)))))
(define-fun gomod ((a Int) (b Int)) Int (- a (* b (godiv a b))))
(define-fun scontains ((s Str) (p Str)) Bool (str.contains s p))
(define-fun smatchat ((s Str) (p Str) (k Int)) Bool (and (<= 0 k) (<= (+ k (str.len p)) (str.len s)) (= (str.substr s k (str.len p)) p)))
(define-fun sindex ((s Str) (p Str)) Int (str.indexof s p 0))
(define-fun sprefix ((s Str) (p Str)) Bool (str.prefixof p s))
(define-fun ssuffix ((s Str) (p Str)) Bool (str.suffixof p s))
`

// library functions with a native-theory definition (instead of an uninterpreted symbol) in model-finding queries
var nativeLib = map[string]string{
	"uf:strings.IndexByte#0":  "(define-fun |uf:strings.IndexByte#0| ((s Str) (c Int)) Int (str.indexof s (str.from_code c) 0))",
	"uf:strings.TrimPrefix#0": "(define-fun |uf:strings.TrimPrefix#0| ((s Str) (p Str)) Str (ite (str.prefixof p s) (str.substr s (str.len p) (- (str.len s) (str.len p))) s))",
	"uf:strings.TrimSuffix#0": "(define-fun |uf:strings.TrimSuffix#0| ((s Str) (p Str)) Str (ite (str.suffixof p s) (str.substr s 0 (- (str.len s) (str.len p))) s))",
	// (cvc5 only: z3 has no case mapping; the query then falls through to cvc5)
	"uf:strings.ToLower#0":   "(define-fun |uf:strings.ToLower#0| ((s Str)) Str (str.to_lower s))",
	"uf:strings.ToUpper#0":   "(define-fun |uf:strings.ToUpper#0| ((s Str)) Str (str.to_upper s))",
	"uf:strings.EqualFold#0": "(define-fun |uf:strings.EqualFold#0| ((s Str) (t Str)) Bool (= (str.to_lower s) (str.to_lower t)))",
}

type replayParam struct {
	Name string
	Term string
	Ty   types.Type
	In   *inNode
}

// replayPlan is attached to the VC of a function whose inputs are plain values.
type replayPlan struct {
	vc       *VC
	fnName   string // Go identifier of the function (or method)
	recv     *replayParam
	params   []replayParam
	results  []replayParam // fresh result constants (summary state)
	entryPos int           // vc.lines[:entryPos] = facts about the parameters (no precondition)
	requires []string      // precondition terms (entry state)
	sumStart int           // vc.lines[sumStart:sumEnd] = lines emitted while translating the summary postconditions
	sumEnd   int
	posts    map[string]string // clause name ("post.k" / "post.name") -> term over parameters and result constants
	facts    []obsFact         // what the generated test observes about the results
	pureIn   bool              // no modifies clause: postconditions can be evaluated over the entry heap
	pkgDir   string            // directory of the package relative to the repository root
	pkg      *types.Package
}

func smtStringLit(s string) string {
	var sb strings.Builder
	sb.WriteByte('"')
	for i := 0; i < len(s); i++ {
		c := s[i]
		switch {
		case c == '"':
			sb.WriteString(`""`)
		case c == '\\' || c < 32 || c > 126:
			fmt.Fprintf(&sb, `\u{%x}`, c)
		default:
			sb.WriteByte(c)
		}
	}
	sb.WriteByte('"')
	return sb.String()
}

// native rendering of a query: string literals become constants of the native theory, quantified assertions are
// dropped (dropAllQuant) or kept only in the obligation's own lines.
func (vc *VC) nativeHeader() []string {
	var out []string
	out = append(out, strings.TrimRight(nativePrelude, "\n"))
	out = append(out, vc.sorts.typeDecls...)
	for i, s := range vc.lits.order {
		out = append(out, fmt.Sprintf("(define-fun lit!%d () Str %s)", i, smtStringLit(s)))
	}
	for _, g := range vc.globals {
		for _, l := range strings.Split(g, "\n") {
			if nativeSkipLine(l, true) {
				continue
			}
			out = append(out, l)
		}
	}
	return out
}

func nativeSkipLine(l string, dropQuant bool) bool {
	t := strings.TrimSpace(l)
	if t == "" {
		return true
	}
	for _, n := range []string{"scontains", "smatchat", "sindex", "sprefix", "ssuffix"} {
		if strings.HasPrefix(t, "(declare-fun "+n+" ") {
			return true
		}
	}
	if dropQuant && strings.HasPrefix(t, "(assert") && (strings.Contains(t, "(forall ") || strings.Contains(t, "(exists ")) {
		return true
	}
	return false
}

func nativeLine(l string) string {
	// library functions with a native definition
	for key, def := range nativeLib {
		if def != "" && strings.HasPrefix(l, "(declare-fun |"+key+"| ") {
			return def
		}
	}
	return l
}

// ---- expansion of range-bounded integer quantifiers (candidate finding only) ----

func (n *sx) String() string {
	if n.str {
		return smtStringLit(n.atom)
	}
	if n.list == nil && n.atom != "" {
		return n.atom
	}
	ps := make([]string, len(n.list))
	for i, c := range n.list {
		ps[i] = c.String()
	}
	return "(" + strings.Join(ps, " ") + ")"
}

func (n *sx) isList(head string) bool {
	return n != nil && n.atom == "" && !n.str && len(n.list) > 0 && n.list[0].atom == head && n.list[0].list == nil
}

func (n *sx) subst(v string, by *sx) *sx {
	if n.str {
		return n
	}
	if n.list == nil {
		if n.atom == v {
			return by
		}
		return n
	}
	out := &sx{list: make([]*sx, len(n.list))}
	for i, c := range n.list {
		out.list[i] = c.subst(v, by)
	}
	return out
}

// lowerBound finds a conjunct (<= NUM v) among the leading guard of a quantifier body.
func lowerBound(body *sx, v string) (int64, bool) {
	var guard *sx
	switch {
	case body.isList("=>") && len(body.list) == 3:
		guard = body.list[1]
	case body.isList("and"):
		guard = body
	default:
		return 0, false
	}
	var found int64
	ok := false
	var walk func(g *sx)
	walk = func(g *sx) {
		if g.isList("and") {
			for _, c := range g.list[1:] {
				walk(c)
			}
			return
		}
		if g.isList("<=") && len(g.list) == 3 && g.list[2].atom == v && g.list[2].list == nil {
			if k, isNum := g.list[1].intValue(); isNum && !ok {
				found, ok = k, true
			}
		}
	}
	walk(guard)
	return found, ok
}

// expandQuant rewrites range-bounded integer quantifiers into finite conjunctions / disjunctions over the first
// replaySliceMax+1 values of the range. ok=false: a quantifier that cannot be expanded remains.
func expandQuant(n *sx) (*sx, bool) {
	if n.str || n.list == nil {
		return n, true
	}
	if (n.isList("forall") || n.isList("exists")) && len(n.list) == 3 {
		binders := n.list[1]
		body := n.list[2]
		if body.isList("!") && len(body.list) >= 2 {
			body = body.list[1]
		}
		if len(binders.list) == 1 && len(binders.list[0].list) == 2 && binders.list[0].list[1].atom == "Int" {
			v := binders.list[0].list[0].atom
			if lo, ok := lowerBound(body, v); ok {
				op := "and"
				if n.isList("exists") {
					op = "or"
				}
				out := &sx{list: []*sx{{atom: op}}}
				allOK := true
				for k := lo; k <= lo+replaySliceMax; k++ {
					val := &sx{atom: strconv.FormatInt(k, 10)}
					if k < 0 {
						val = &sx{list: []*sx{{atom: "-"}, {atom: strconv.FormatInt(-k, 10)}}}
					}
					inst, ok := expandQuant(body.subst(v, val))
					allOK = allOK && ok
					out.list = append(out.list, inst)
				}
				return out, allOK
			}
		}
		return n, false
	}
	out := &sx{list: make([]*sx, len(n.list))}
	allOK := true
	for i, c := range n.list {
		e, ok := expandQuant(c)
		out.list[i] = e
		allOK = allOK && ok
	}
	return out, allOK
}

// expandLine: the line with its bounded quantifiers expanded; "" when an unexpandable quantifier remains.
func expandLine(l string) string {
	if !strings.Contains(l, "(forall ") && !strings.Contains(l, "(exists ") {
		return l
	}
	top := parseSexprs(l)
	if len(top) != 1 {
		return ""
	}
	e, ok := expandQuant(top[0])
	if !ok {
		return ""
	}
	return e.String()
}

// mode: "expand" (bounded quantifiers expanded, others dropped), "keep" (obligation lines verbatim), "drop"
func (vc *VC) nativeQuery(o *Obl, mode string, extra []string, getValues []string) string {
	dropQuant := mode == "drop"
	var sb strings.Builder
	for _, l := range vc.nativeHeader() {
		sb.WriteString(nativeLine(l))
		sb.WriteByte('\n')
	}
	for _, l := range vc.lines[:o.Pos] {
		if nativeSkipLine(l, dropQuant) {
			continue
		}
		if mode == "expand" {
			if l = expandLine(l); l == "" {
				continue
			}
		}
		sb.WriteString(nativeLine(l))
		sb.WriteByte('\n')
	}
	goal := fmt.Sprintf("(assert (not %s))", implies(o.Guard, o.Goal))
	if mode == "expand" {
		if g := expandLine(goal); g != "" {
			goal = g
		}
	}
	sb.WriteString(goal + "\n")
	for _, e := range extra {
		sb.WriteString(e)
		sb.WriteByte('\n')
	}
	sb.WriteString("(check-sat)\n")
	if len(getValues) > 0 {
		sb.WriteString("(get-value (" + strings.Join(getValues, " ") + "))\n")
	}
	return sb.String()
}

// ---- eligibility and plan construction (called at the end of a function's translation) ----

// inNode describes how one input (or part of one) is read from a model and rebuilt as a Go value.
type inNode struct {
	kind string // scalar | struct | ptr | slice | zero
	ty   types.Type
	term string    // scalar / pointer / slice term; for zero: the term pinned to the zero value
	kids []*inNode // struct: fields; ptr: pointee; slice: the first replaySliceMax elements
}

const replaySliceMax = 3

type inBuilder struct {
	ft     *fnTrans
	budget int
}

// node builds the reader of a value `term` of type t living in the entry heap.
func (b *inBuilder) node(term string, t types.Type, depth int) *inNode {
	vc := b.ft.vc
	t0 := t
	t = types.Unalias(t)
	b.budget--
	if b.budget < 0 || depth < 0 {
		return &inNode{kind: "zero", ty: t0, term: term}
	}
	switch u := t.Underlying().(type) {
	case *types.Basic:
		if u.Info()&(types.IsBoolean|types.IsInteger|types.IsString) != 0 {
			return &inNode{kind: "scalar", ty: t0, term: term}
		}
	case *types.Struct:
		n := &inNode{kind: "struct", ty: t0, term: term}
		for i := 0; i < u.NumFields(); i++ {
			n.kids = append(n.kids, b.node(vc.sorts.structGet(t0, i, term), u.Field(i).Type(), depth-1))
		}
		return n
	case *types.Pointer:
		n := &inNode{kind: "ptr", ty: t0, term: term}
		el := u.Elem()
		if st, ok := types.Unalias(el).Underlying().(*types.Struct); ok {
			pointee := &inNode{kind: "struct", ty: el}
			for i := 0; i < st.NumFields(); i++ {
				ft := sel(vc.get(b.ft.entry, vc.compField(el, i)), term)
				pointee.kids = append(pointee.kids, b.node(ft, st.Field(i).Type(), depth-1))
			}
			n.kids = []*inNode{pointee}
			return n
		}
		if _, isPtr := types.Unalias(el).Underlying().(*types.Pointer); !isPtr {
			n.kids = []*inNode{b.node(sel(vc.get(b.ft.entry, vc.compCell(el)), term), el, depth-1)}
			return n
		}
	case *types.Slice:
		n := &inNode{kind: "slice", ty: t0, term: term}
		arr := sel(vc.get(b.ft.entry, vc.compElems(u.Elem())), "(s-base "+term+")")
		for j := 0; j < replaySliceMax; j++ {
			n.kids = append(n.kids, b.node(sel(arr, fmt.Sprintf("(sidx (s-off %s) %d)", term, j)), u.Elem(), depth-1))
		}
		return n
	}
	return &inNode{kind: "zero", ty: t0, term: term}
}

// leaves: the terms whose model values are needed, in a fixed order.
func (n *inNode) leaves(out *[]string) {
	switch n.kind {
	case "scalar", "ptr":
		*out = append(*out, n.term)
	case "slice":
		*out = append(*out, "(s-len "+n.term+")")
	}
	for _, k := range n.kids {
		k.leaves(out)
	}
}

// constraints that keep the candidate within what can be rebuilt
func (n *inNode) bounds(vc *VC, out *[]string) {
	switch n.kind {
	case "slice":
		*out = append(*out, fmt.Sprintf("(assert (<= (s-len %s) %d))", n.term, replaySliceMax))
	case "zero":
		*out = append(*out, "(assert "+eq(n.term, vc.sorts.zero(n.ty, vc.lits))+")")
	}
	for _, k := range n.kids {
		k.bounds(vc, out)
	}
}

func (ft *fnTrans) buildReplayPlan(entryPos int, requires []string) {
	defer func() { recover() }() // replay is best effort: any failure here only means "no replay"
	fn := ft.fn
	obj, ok := fn.Object().(*types.Func)
	if !ok || obj.Pkg() == nil || fn.Pkg == nil || len(fn.FreeVars) > 0 || fn.Synthetic != "" {
		return
	}
	if !strings.HasPrefix(obj.Pkg().Path(), modulePath) {
		return
	}
	plan := &replayPlan{vc: ft.vc, fnName: obj.Name(), entryPos: entryPos, requires: requires, posts: map[string]string{}, pkg: obj.Pkg(),
		pkgDir: strings.TrimPrefix(strings.TrimPrefix(obj.Pkg().Path(), modulePath), "/")}
	sig := obj.Type().(*types.Signature)
	for i, p := range fn.Params {
		ib := &inBuilder{ft: ft, budget: 600}
		rp := replayParam{Name: p.Name(), Term: ft.vals[p], Ty: p.Type(), In: ib.node(ft.vals[p], p.Type(), 6)}
		if i == 0 && sig.Recv() != nil {
			plan.recv = &rp
		} else {
			plan.params = append(plan.params, rp)
		}
	}
	if sig.Variadic() {
		return
	}
	// summary state: results are fresh constants, heap is the entry heap
	vc := ft.vc
	plan.sumStart = len(vc.lines)
	env := ft.envAt(ft.entry, nil, nil)
	res := sig.Results()
	for i := 0; i < res.Len(); i++ {
		rt := res.At(i).Type()
		c := vc.fresh(fmt.Sprintf("r%d", i), vc.sorts.sortOf(rt))
		plan.results = append(plan.results, replayParam{Name: fmt.Sprintf("result%d", i), Term: c, Ty: rt})
		env.results = append(env.results, TV{c, rt})
		if n := res.At(i).Name(); n != "" && n != "_" {
			env.vars[n] = TV{c, rt}
		}
	}
	if env.old != nil {
		env.old.results = env.results
	}
	ob := &obsBuilder{ft: ft, g: obj.Pkg(), budget: 300}
	for i, r := range plan.results {
		ob.observe("", fmt.Sprintf("r%d", i), r.Term, r.Ty, 4)
	}
	plan.facts = ob.facts
	plan.pureIn = len(ft.fc.Modifies) == 0
	for k, e := range ft.fc.Ensures {
		if e.Assumed {
			continue
		}
		name := fmt.Sprintf("post.%d", k)
		if e.Name != "" {
			name = "post." + e.Name
		}
		func() {
			defer func() { recover() }()
			if t, err := env.Bool(e.Expr); err == nil {
				plan.posts[name] = t
			}
		}()
	}
	plan.sumEnd = len(vc.lines)
	vc.replay = plan
}

// ---- model values ----

type sx struct {
	atom string
	str  bool // atom is a string literal (already unescaped)
	list []*sx
}

func parseSexprs(s string) []*sx {
	var out []*sx
	i := 0
	var parse func() *sx
	skip := func() {
		for i < len(s) && (s[i] == ' ' || s[i] == '\n' || s[i] == '\t' || s[i] == '\r') {
			i++
		}
	}
	parse = func() *sx {
		skip()
		if i >= len(s) {
			return nil
		}
		switch s[i] {
		case '(':
			i++
			n := &sx{}
			for {
				skip()
				if i >= len(s) {
					return n
				}
				if s[i] == ')' {
					i++
					return n
				}
				c := parse()
				if c == nil {
					return n
				}
				n.list = append(n.list, c)
			}
		case '"':
			i++
			var sb strings.Builder
			for i < len(s) {
				if s[i] == '"' {
					if i+1 < len(s) && s[i+1] == '"' {
						sb.WriteByte('"')
						i += 2
						continue
					}
					i++
					break
				}
				sb.WriteByte(s[i])
				i++
			}
			return &sx{atom: unescapeSmt(sb.String()), str: true}
		case '|':
			j := strings.IndexByte(s[i+1:], '|')
			if j < 0 {
				i = len(s)
				return nil
			}
			a := s[i : i+j+2]
			i += j + 2
			return &sx{atom: a}
		}
		st := i
		for i < len(s) && !strings.ContainsRune(" \n\t\r()", rune(s[i])) {
			i++
		}
		return &sx{atom: s[st:i]}
	}
	for {
		n := parse()
		if n == nil {
			break
		}
		out = append(out, n)
	}
	return out
}

// unescapeSmt decodes \u{X}, \uXXXX and \xXX escapes to bytes (code points above 255 are reduced modulo 256:
// Go strings are byte sequences, the replay decides whether the candidate is a real failing input).
func unescapeSmt(s string) string {
	var out []byte
	for i := 0; i < len(s); {
		if s[i] == '\\' && i+1 < len(s) && (s[i+1] == 'u' || s[i+1] == 'x') {
			j := i + 2
			var hex string
			if j < len(s) && s[j] == '{' {
				k := strings.IndexByte(s[j:], '}')
				if k > 0 {
					hex = s[j+1 : j+k]
					j = j + k + 1
				}
			} else if s[i+1] == 'u' && j+4 <= len(s) {
				hex = s[j : j+4]
				j += 4
			} else if s[i+1] == 'x' && j+2 <= len(s) {
				hex = s[j : j+2]
				j += 2
			}
			if v, err := strconv.ParseUint(hex, 16, 32); err == nil && hex != "" {
				out = append(out, byte(v%256))
				i = j
				continue
			}
		}
		out = append(out, s[i])
		i++
	}
	return string(out)
}

func (n *sx) intValue() (int64, bool) {
	if n == nil {
		return 0, false
	}
	if n.list != nil {
		if len(n.list) == 2 && n.list[0].atom == "-" {
			v, ok := n.list[1].intValue()
			return -v, ok
		}
		return 0, false
	}
	v, err := strconv.ParseInt(n.atom, 10, 64)
	return v, err == nil
}

type goGen struct {
	pkg     *types.Package
	imports map[string]string // path -> alias
	objs    map[string]string // pointer type @ model address -> variable holding the object
	decls   []string
}

func (g *goGen) qual(p *types.Package) string {
	if p == g.pkg {
		return ""
	}
	if a, ok := g.imports[p.Path()]; ok {
		return a
	}
	a := fmt.Sprintf("vp%d", len(g.imports))
	g.imports[p.Path()] = a
	return a
}

func (g *goGen) typeStr(t types.Type) string { return types.TypeString(t, g.qual) }

func goBytesLit(s string) string {
	var sb strings.Builder
	sb.WriteByte('"')
	for i := 0; i < len(s); i++ {
		c := s[i]
		switch {
		case c == '"' || c == '\\':
			sb.WriteByte('\\')
			sb.WriteByte(c)
		case c < 32 || c > 126:
			fmt.Fprintf(&sb, `\x%02x`, c)
		default:
			sb.WriteByte(c)
		}
	}
	sb.WriteByte('"')
	return sb.String()
}

// lit builds the Go expression of an input from the model values of its leaves (consumed in the order of leaves()).
// Objects behind equal non-nil pointer values are shared (declared once in g.decls).
func (g *goGen) lit(n *inNode, vals *[]*sx) (string, bool) {
	next := func() *sx {
		if len(*vals) == 0 {
			return nil
		}
		v := (*vals)[0]
		*vals = (*vals)[1:]
		return v
	}
	switch n.kind {
	case "zero":
		return "vZero[" + g.typeStr(n.ty) + "]()", true
	case "scalar":
		v := next()
		if v == nil {
			return "", false
		}
		u := types.Unalias(n.ty).Underlying().(*types.Basic)
		var lit string
		switch {
		case u.Info()&types.IsBoolean != 0:
			if v.atom != "true" && v.atom != "false" {
				return "", false
			}
			lit = v.atom
		case u.Info()&types.IsInteger != 0:
			k, ok := v.intValue()
			if !ok {
				return "", false
			}
			lit = strconv.FormatInt(k, 10)
		case u.Info()&types.IsString != 0:
			if !v.str {
				return "", false
			}
			lit = goBytesLit(v.atom)
		}
		return g.typeStr(n.ty) + "(" + lit + ")", true
	case "struct":
		st := types.Unalias(n.ty).Underlying().(*types.Struct)
		var fs []string
		for i, k := range n.kids {
			f := st.Field(i)
			if (!f.Exported() && f.Pkg() != g.pkg) || f.Name() == "_" || k.kind == "zero" {
				// cannot be set from here (or is the zero value anyway): left at its zero value; its leaves are skipped
				var skipped []string
				k.leaves(&skipped)
				if len(skipped) > len(*vals) {
					return "", false
				}
				*vals = (*vals)[len(skipped):]
				continue
			}
			fl, ok := g.lit(k, vals)
			if !ok {
				return "", false
			}
			fs = append(fs, f.Name()+": "+fl)
		}
		return g.typeStr(n.ty) + "{" + strings.Join(fs, ", ") + "}", true
	case "ptr":
		v := next()
		if v == nil {
			return "", false
		}
		addr, ok := v.intValue()
		if !ok {
			return "", false
		}
		key := fmt.Sprintf("%s@%d", g.typeStr(n.ty), addr)
		if name, seen := g.objs[key]; seen || addr == 0 {
			// the pointee's leaves are skipped (fixed order)
			var skipped []string
			n.kids[0].leaves(&skipped)
			if len(skipped) > len(*vals) {
				return "", false
			}
			*vals = (*vals)[len(skipped):]
			if addr == 0 {
				return "(" + g.typeStr(n.ty) + ")(nil)", true
			}
			return name, true
		}
		pointee, ok := g.lit(n.kids[0], vals)
		if !ok {
			return "", false
		}
		name := fmt.Sprintf("vo%d", len(g.objs))
		g.objs[key] = name
		g.decls = append(g.decls, fmt.Sprintf("\t%s := vPtr(%s)\n\t_ = %s", name, pointee, name))
		return name, true
	case "slice":
		v := next()
		if v == nil {
			return "", false
		}
		ln, ok := v.intValue()
		if !ok {
			return "", false
		}
		var es []string
		for j, k := range n.kids {
			el, ok := g.lit(k, vals)
			if !ok {
				return "", false
			}
			if int64(j) < ln {
				es = append(es, el)
			}
		}
		if ln <= 0 {
			return "(" + g.typeStr(n.ty) + ")(nil)", true
		}
		return g.typeStr(n.ty) + "{" + strings.Join(es, ", ") + "}", true
	}
	return "", false
}

// obsFact: one observable fact about a result, printed by the generated test and asserted on the summary state.
type obsFact struct {
	guard string // Go condition under which the fact is observable ("" = always)
	expr  string // Go expression observed
	term  string // SMT term it corresponds to
	kind  string // bool | int | uint | str | ref | iface | len
}

type obsBuilder struct {
	ft     *fnTrans
	g      *types.Package
	facts  []obsFact
	budget int
}

func andGuard(a, b string) string {
	if a == "" {
		return b
	}
	if b == "" {
		return a
	}
	return a + " && " + b
}

// observe records the facts of value `expr` (Go) / `term` (SMT, entry heap) of type t.
func (b *obsBuilder) observe(guard, expr, term string, t types.Type, depth int) {
	vc := b.ft.vc
	t0 := t
	t = types.Unalias(t)
	b.budget--
	if b.budget < 0 || depth < 0 {
		return
	}
	switch u := t.Underlying().(type) {
	case *types.Basic:
		switch {
		case u.Info()&types.IsBoolean != 0:
			b.facts = append(b.facts, obsFact{guard, "bool(" + expr + ")", term, "bool"})
		case u.Info()&types.IsInteger != 0 && u.Info()&types.IsUnsigned == 0:
			b.facts = append(b.facts, obsFact{guard, "int64(" + expr + ")", term, "int"})
		case u.Info()&types.IsInteger != 0:
			b.facts = append(b.facts, obsFact{guard, "uint64(" + expr + ")", term, "uint"})
		case u.Info()&types.IsString != 0:
			b.facts = append(b.facts, obsFact{guard, "string(" + expr + ")", term, "str"})
		}
	case *types.Struct:
		for i := 0; i < u.NumFields(); i++ {
			f := u.Field(i)
			if (!f.Exported() && f.Pkg() != b.g) || f.Name() == "_" {
				continue
			}
			b.observe(guard, "("+expr+")."+f.Name(), vc.sorts.structGet(t0, i, term), f.Type(), depth-1)
		}
	case *types.Pointer:
		b.facts = append(b.facts, obsFact{guard, expr + " == nil", term, "ref"})
		el := u.Elem()
		ng := andGuard(guard, expr+" != nil")
		if st, ok := types.Unalias(el).Underlying().(*types.Struct); ok {
			for i := 0; i < st.NumFields(); i++ {
				f := st.Field(i)
				if (!f.Exported() && f.Pkg() != b.g) || f.Name() == "_" {
					continue
				}
				b.observe(ng, "("+expr+")."+f.Name(), sel(vc.get(b.ft.entry, vc.compField(el, i)), term), f.Type(), depth-1)
			}
		} else if _, isPtr := types.Unalias(el).Underlying().(*types.Pointer); !isPtr {
			b.observe(ng, "*("+expr+")", sel(vc.get(b.ft.entry, vc.compCell(el)), term), el, depth-1)
		}
	case *types.Map, *types.Chan, *types.Signature:
		b.facts = append(b.facts, obsFact{guard, expr + " == nil", term, "ref"})
	case *types.Interface:
		b.facts = append(b.facts, obsFact{guard, expr + " == nil", term, "iface"})
	case *types.Slice:
		b.facts = append(b.facts, obsFact{guard, "len(" + expr + ")", term, "len"})
		arr := sel(vc.get(b.ft.entry, vc.compElems(u.Elem())), "(s-base "+term+")")
		for j := 0; j < replaySliceMax; j++ {
			b.observe(andGuard(guard, fmt.Sprintf("len(%s) > %d", expr, j)), fmt.Sprintf("(%s)[%d]", expr, j), sel(arr, fmt.Sprintf("(sidx (s-off %s) %d)", term, j)), u.Elem(), depth-1)
		}
	}
}

// goPrint: the statement of the generated test that prints fact k
func (f obsFact) goPrint(k int) string {
	var val string
	switch f.kind {
	case "bool":
		val = "vSmtBool(" + f.expr + ")"
	case "int":
		val = "vSmtInt(" + f.expr + ")"
	case "uint":
		val = "vSmtUint(" + f.expr + ")"
	case "str":
		val = "vSmtStr(" + f.expr + ")"
	case "ref", "iface":
		val = "vSmtBool(" + f.expr + ")"
	case "len":
		val = "strconv.Itoa(" + f.expr + ")"
	}
	st := fmt.Sprintf("fmt.Println(\"VERIF-REPLAY-FACT %d \" + %s)", k, val)
	if f.guard != "" {
		return "\tif " + f.guard + " { " + st + " }"
	}
	return "\t" + st
}

// smtAssert: the assertion for the observed value v of the fact
func (f obsFact) smtAssert(v string) string {
	switch f.kind {
	case "ref":
		if v == "true" {
			return "(assert (= " + f.term + " 0))"
		}
		return "(assert (not (= " + f.term + " 0)))"
	case "iface":
		if v == "true" {
			return "(assert (= " + f.term + " nil-iface))"
		}
		return "(assert (not (= " + f.term + " nil-iface)))"
	case "len":
		return "(assert (= (s-len " + f.term + ") " + v + "))"
	}
	return "(assert (= " + f.term + " " + v + "))"
}

const replayHelpers = `
func vSmtBool(b bool) string { if b { return "true" }; return "false" }
func vSmtInt(n int64) string { if n < 0 { return "(- " + strconv.FormatUint(uint64(-(n+1))+1, 10) + ")" }; return strconv.FormatInt(n, 10) }
func vSmtUint(n uint64) string { return strconv.FormatUint(n, 10) }
func vSmtStr(s string) string {
	var sb strings.Builder
	sb.WriteByte('"')
	for i := 0; i < len(s); i++ {
		c := s[i]
		switch {
		case c == '"':
			sb.WriteString("\"\"")
		case c == '\\' || c < 32 || c > 126:
			fmt.Fprintf(&sb, "\\u{%x}", c)
		default:
			sb.WriteByte(c)
		}
	}
	sb.WriteByte('"')
	return sb.String()
}
func vSmtRef(isNil bool) string { if isNil { return "0" }; return "?nonnil-ref" }
func vSmtIface(isNil bool) string { if isNil { return "nil-iface" }; return "?nonnil-iface" }
func vSmtSlice(n int) string { return "?len:" + strconv.Itoa(n) }
func vPtr[T any](v T) *T { return &v }
func vZero[T any]() T { var z T; return z }
`

type replayOutcome struct {
	Reproduced bool
	Info       map[string]any
}

func runModelQuery(scratch, name, query string, timeout time.Duration) (string, string) {
	file := filepath.Join(scratch, name+".smt2")
	os.WriteFile(file, []byte(query), 0o644)
	for _, s := range [][]string{{"z3-new", fmt.Sprintf("-T:%d", int(timeout.Seconds())), file}, {"cvc5", "--strings-exp", fmt.Sprintf("--tlimit=%d", timeout.Milliseconds()), file}} {
		out, _ := exec.Command(s[0], s[1:]...).CombinedOutput()
		first := strings.TrimSpace(strings.SplitN(string(out), "\n", 2)[0])
		if first == "sat" || first == "unsat" {
			return first, string(out)
		}
	}
	return "unknown", ""
}

// tryReplay: candidate input from the native-theory model, executed on the real code.
func tryReplay(o *runOpts, ob *Obl, rep map[string]any) (bool, map[string]any) {
	plan := ob.plan
	if plan == nil || ob.Cover {
		return false, nil
	}
	vc := plan.vc
	scratch, err := os.MkdirTemp("", "gvc-replay-")
	if err != nil {
		return false, nil
	}
	defer os.RemoveAll(scratch)
	// what to read from the model
	var inputs []replayParam
	if plan.recv != nil {
		inputs = append(inputs, *plan.recv)
	}
	inputs = append(inputs, plan.params...)
	var leafTerms, bounds []string
	for _, in := range inputs {
		in.In.leaves(&leafTerms)
		in.In.bounds(vc, &bounds)
	}
	info := map[string]any{"method": "the failed obligation re-issued over the solvers' native theory of strings (quantified axioms dropped) to obtain a candidate model; the candidate is run on the real function inside its package (go test -overlay)"}
	blocks := append([]string(nil), bounds...)
	var attempts []map[string]any
	for attempt := 0; attempt < 4; attempt++ {
		var st, out string
		for _, mode := range []string{"expand", "keep", "drop"} {
			st, out = runModelQuery(scratch, fmt.Sprintf("m%d", attempt), vc.nativeQuery(ob, mode, blocks, leafTerms), 8*time.Second)
			if st == "sat" {
				break
			}
		}
		if st != "sat" {
			attempts = append(attempts, map[string]any{"candidate": attempt, "model": "none (" + st + ")"})
			break
		}
		// parse the values
		var vals []*sx
		if len(leafTerms) > 0 {
			rest := strings.SplitN(out, "\n", 2)
			if len(rest) < 2 {
				break
			}
			top := parseSexprs(rest[1])
			if len(top) == 0 || len(top[0].list) != len(leafTerms) {
				break
			}
			for _, pair := range top[0].list {
				if len(pair.list) != 2 {
					return false, nil
				}
				vals = append(vals, pair.list[1])
			}
		}
		// blocking clause for the next candidate
		var eqs []string
		for i, t := range leafTerms {
			eqs = append(eqs, eq(t, sxToSmt(vals[i])))
		}
		if len(eqs) > 0 {
			blocks = append(blocks, "(assert (not "+and(eqs...)+"))")
		}
		att := plan.runCandidate(o, ob, scratch, attempt, inputs, leafTerms, bounds, vals)
		attempts = append(attempts, att)
		if att["verdict"] == "reproduced" {
			info["candidates"] = attempts
			info["failing_input"] = att["input"]
			if v, ok := att["input_setup"]; ok {
				info["failing_input_setup"] = v
			}
			info["generated_test"] = att["test_source"]
			for _, a := range attempts {
				delete(a, "test_source")
			}
			info["observed"] = att["observed"]
			info["how_to_rerun"] = att["how_to_rerun"]
			return true, info
		}
		if len(eqs) == 0 {
			break
		}
	}
	for _, a := range attempts {
		delete(a, "test_source")
	}
	info["candidates"] = attempts
	rep["replay_attempts"] = info
	return false, nil
}

func sxToSmt(n *sx) string {
	if n.str {
		return smtStringLit(n.atom)
	}
	if n.list != nil {
		var ps []string
		for _, c := range n.list {
			ps = append(ps, sxToSmt(c))
		}
		return "(" + strings.Join(ps, " ") + ")"
	}
	return n.atom
}

func (plan *replayPlan) runCandidate(o *runOpts, ob *Obl, scratch string, attempt int, inputs []replayParam, leafTerms, bounds []string, vals []*sx) map[string]any {
	vc := plan.vc
	att := map[string]any{"candidate": attempt}
	g := &goGen{pkg: plan.pkg, imports: map[string]string{}, objs: map[string]string{}}
	rest := append([]*sx(nil), vals...)
	var args []string
	inputDesc := map[string]string{}
	for _, in := range inputs {
		lit, ok := g.lit(in.In, &rest)
		if !ok {
			att["verdict"] = "candidate not expressible as Go literals"
			return att
		}
		args = append(args, lit)
		inputDesc[in.Name] = lit
	}
	att["input"] = inputDesc
	if len(g.decls) > 0 {
		att["input_setup"] = truncate(strings.Join(g.decls, "\n"), 6000)
	}
	// 1. the candidate must satisfy the precondition (decided on the concrete values)
	var pin []string
	for i, t := range leafTerms {
		pin = append(pin, "(assert "+eq(t, sxToSmt(vals[i]))+")")
	}
	pin = append(pin, bounds...)
	if len(plan.requires) > 0 {
		var sb strings.Builder
		for _, l := range vc.nativeHeader() {
			sb.WriteString(nativeLine(l) + "\n")
		}
		for _, l := range vc.lines[:plan.entryPos] {
			if !nativeSkipLine(l, true) {
				sb.WriteString(nativeLine(l) + "\n")
			}
		}
		for _, p := range pin {
			sb.WriteString(p + "\n")
		}
		sb.WriteString("(assert " + and(plan.requires...) + ")\n(check-sat)\n")
		if st, _ := runModelQuery(scratch, fmt.Sprintf("pre%d", attempt), sb.String(), 8*time.Second); st != "sat" {
			att["verdict"] = "candidate does not (decidably) satisfy the precondition: " + st
			return att
		}
	}
	// 2. run the real function
	call := plan.fnName + "(" + strings.Join(args, ", ") + ")"
	if plan.recv != nil {
		call = "(" + args[0] + ")." + plan.fnName + "(" + strings.Join(args[1:], ", ") + ")"
	}
	var resNames, renders []string
	for i := range plan.results {
		resNames = append(resNames, fmt.Sprintf("r%d", i))
		renders = append(renders, fmt.Sprintf("\t_ = r%d", i))
	}
	for k, f := range plan.facts {
		renders = append(renders, f.goPrint(k))
	}
	assign := ""
	if len(resNames) > 0 {
		assign = strings.Join(resNames, ", ") + " := "
	}
	var imps []string
	paths := make([]string, 0, len(g.imports))
	for p := range g.imports {
		paths = append(paths, p)
	}
	sort.Strings(paths)
	body := strings.Join(g.decls, "\n") + "\n" + call + "\n" + strings.Join(renders, "\n")
	for _, p := range paths {
		if strings.Contains(body, g.imports[p]+".") { // aliases of discarded sub-literals are not imported
			imps = append(imps, fmt.Sprintf("\t%s %q", g.imports[p], p))
		}
	}
	src := fmt.Sprintf(`package %s

// Generated by gvc: replay of a solver candidate on the real function (never part of the repository).

import (
	"fmt"
	"strconv"
	"strings"
	"testing"
%s
)

var _ = strconv.Itoa
var _ = strings.Contains
%s
func TestVerifReplayCandidate(t *testing.T) {
	defer func() {
		if r := recover(); r != nil {
			fmt.Printf("VERIF-REPLAY-PANIC %%v\n", r)
		}
		fmt.Println("VERIF-REPLAY-DONE")
	}()
%s
	%s%s
%s
}
`, plan.pkg.Name(), strings.Join(imps, "\n"), replayHelpers, strings.Join(g.decls, "\n"), assign, call, strings.Join(renders, "\n"))
	testFile := filepath.Join(scratch, fmt.Sprintf("zz_verif_replay_%d_test.go", attempt))
	os.WriteFile(testFile, []byte(src), 0o644)
	target := filepath.Join(o.repo, plan.pkgDir, "zz_verif_replay_candidate_test.go")
	ov, _ := json.Marshal(map[string]map[string]string{"Replace": {target: testFile}})
	ovPath := filepath.Join(scratch, fmt.Sprintf("overlay%d.json", attempt))
	os.WriteFile(ovPath, ov, 0o644)
	cmd := exec.Command("go", "test", "-overlay", ovPath, "-vet=off", "-v", "-count=1", "-timeout=60s", "-run", "^TestVerifReplayCandidate$", "./"+plan.pkgDir)
	cmd.Dir = o.repo
	cmd.Env = append(os.Environ(), "GOFLAGS=-mod=mod", "GOPROXY=off", "GOCACHE="+goCacheDir())
	// the module files of the repository must come out of the run exactly as they went in
	modBefore, _ := os.ReadFile(filepath.Join(o.repo, "go.mod"))
	sumBefore, _ := os.ReadFile(filepath.Join(o.repo, "go.sum"))
	outB, _ := cmd.CombinedOutput()
	if b, err := os.ReadFile(filepath.Join(o.repo, "go.mod")); err == nil && modBefore != nil && string(b) != string(modBefore) {
		os.WriteFile(filepath.Join(o.repo, "go.mod"), modBefore, 0o644)
	}
	if b, err := os.ReadFile(filepath.Join(o.repo, "go.sum")); err == nil && sumBefore != nil && string(b) != string(sumBefore) {
		os.WriteFile(filepath.Join(o.repo, "go.sum"), sumBefore, 0o644)
	}
	out := string(outB)
	att["how_to_rerun"] = fmt.Sprintf("in package %s of the repository: call %s (the generated test is kept next to this file)", plan.pkgDir, call)
	att["test_source"] = src
	observed := map[string]string{}
	panicked := ""
	done := false
	sc := bufio.NewScanner(strings.NewReader(out))
	sc.Buffer(make([]byte, 1<<20), 1<<20)
	for sc.Scan() {
		line := sc.Text()
		if i := strings.Index(line, "VERIF-REPLAY-PANIC "); i >= 0 {
			panicked = line[i+len("VERIF-REPLAY-PANIC "):]
		}
		if i := strings.Index(line, "VERIF-REPLAY-FACT "); i >= 0 {
			f := strings.SplitN(line[i+len("VERIF-REPLAY-FACT "):], " ", 2)
			if len(f) == 2 {
				observed[f[0]] = f[1]
			}
		}
		if strings.Contains(line, "VERIF-REPLAY-DONE") {
			done = true
		}
	}
	if !done {
		if strings.Contains(out, "panic: test timed out") && (strings.HasPrefix(ob.Kind, "safe") || ob.Kind == "dec") {
			att["verdict"] = "reproduced"
			att["observed"] = "the real function did not return within 60 s on this input"
			return att
		}
		att["verdict"] = "replay harness did not run"
		att["output"] = truncate(out, 2000)
		return att
	}
	if panicked != "" {
		if strings.HasPrefix(ob.Kind, "safe") {
			att["verdict"] = "reproduced"
			att["observed"] = "the real function panics on this input (which satisfies its precondition): " + panicked
			return att
		}
		// a panic is a failing input for a safety obligation only; for any other kind it is recorded, not counted
		att["verdict"] = "the real function panics on this candidate before the failed obligation can be observed: " + panicked
		return att
	}
	if !strings.HasPrefix(ob.Kind, "post") {
		att["verdict"] = "the real function returns normally on this candidate"
		return att
	}
	// 3. evaluate the clause on the observed results
	name := ob.Name[strings.Index(ob.Name, "#")+1:]
	if i := strings.Index(name, "@"); i >= 0 {
		name = name[:i]
	}
	post, ok := plan.posts[name]
	if !ok || !plan.pureIn {
		att["verdict"] = "clause has no summary form over the entry heap (the function modifies its inputs or the clause could not be restated)"
		return att
	}
	var sb strings.Builder
	for _, l := range vc.nativeHeader() {
		sb.WriteString(nativeLine(l) + "\n")
	}
	for _, l := range vc.lines[:plan.entryPos] {
		if !nativeSkipLine(l, true) {
			sb.WriteString(nativeLine(l) + "\n")
		}
	}
	for _, l := range vc.lines[plan.sumStart:plan.sumEnd] {
		if !nativeSkipLine(l, true) {
			sb.WriteString(nativeLine(l) + "\n")
		}
	}
	for _, p := range pin {
		sb.WriteString(p + "\n")
	}
	shown := map[string]string{}
	for k, f := range plan.facts {
		if v, ok := observed[strconv.Itoa(k)]; ok {
			sb.WriteString(f.smtAssert(v) + "\n")
			if len(shown) < 40 {
				shown[f.expr] = v
			}
		}
	}
	att["observed"] = shown
	base := sb.String()
	// (bounded quantifiers of the clause are expanded over the observed prefix: exact when the slices involved are
	// no longer than replaySliceMax, which the candidate bounds ensure for the inputs)
	posA, negA := "(assert "+post+")", "(assert (not "+post+"))"
	if e := expandLine(posA); e != "" {
		posA = e
	}
	if e := expandLine(negA); e != "" {
		negA = e
	}
	stPos, _ := runModelQuery(scratch, fmt.Sprintf("post%d", attempt), base+posA+"\n(check-sat)\n", 8*time.Second)
	stNeg, _ := runModelQuery(scratch, fmt.Sprintf("npost%d", attempt), base+negA+"\n(check-sat)\n", 8*time.Second)
	if stPos == "unsat" && stNeg == "sat" {
		att["verdict"] = "reproduced"
		att["observed"] = map[string]any{"results": shown, "clause": ob.Src, "evaluation": "the clause is false on these concrete inputs and observed results (decided by the solver on ground terms)"}
		return att
	}
	att["verdict"] = fmt.Sprintf("clause not refuted on the observed results (clause: %s, negation: %s)", stPos, stNeg)
	return att
}
