package main

import (
	"context"
	"fmt"
	"os"
	"os/exec"
	"path/filepath"
	"strings"
	"sync"
	"time"
)

type SolveResult struct {
	Status   string // unsat, sat, unknown, timeout, error
	Solver   string
	Seconds  float64
	Output   string
	Attempts []string
	Bytes    int
}

type solverSpec struct {
	name string
	cmd  func(file string, timeout time.Duration) []string
}

var solvers = []solverSpec{
	{"z3-new", func(f string, t time.Duration) []string {
		return []string{"z3-new", fmt.Sprintf("-T:%d", int(t.Seconds())+1), f}
	}},
	{"z3", func(f string, t time.Duration) []string {
		return []string{"z3", fmt.Sprintf("-T:%d", int(t.Seconds())+1), f}
	}},
	{"cvc5", func(f string, t time.Duration) []string {
		return []string{"cvc5", fmt.Sprintf("--tlimit=%d", t.Milliseconds()), f}
	}},
}

func runSolver(ctx context.Context, s solverSpec, file string, timeout time.Duration) (status, out string, secs float64) {
	args := s.cmd(file, timeout)
	cctx, cancel := context.WithTimeout(ctx, timeout+2*time.Second)
	defer cancel()
	start := time.Now()
	cmd := exec.CommandContext(cctx, args[0], args[1:]...)
	b, _ := cmd.CombinedOutput()
	secs = time.Since(start).Seconds()
	out = string(b)
	first := strings.TrimSpace(strings.SplitN(out, "\n", 2)[0])
	switch first {
	case "unsat", "sat", "unknown":
		return first, out, secs
	case "timeout":
		return "timeout", out, secs
	}
	if cctx.Err() != nil {
		return "timeout", out, secs
	}
	if strings.Contains(out, "interrupted") || strings.Contains(out, "timeout") {
		return "timeout", out, secs
	}
	return "error", out, secs
}

// solve discharges one query: first z3-new alone (fast path), then a race of all solvers.
func solve(dir string, idx int, query string, quickT, fullT time.Duration, wantSat bool) *SolveResult {
	file := filepath.Join(dir, fmt.Sprintf("q%05d.smt2", idx))
	os.WriteFile(file, []byte(query), 0o644)
	defer os.Remove(file)
	res := &SolveResult{Bytes: len(query)}
	decisive := func(st string) bool {
		if wantSat {
			return st == "sat" || st == "unsat"
		}
		return st == "unsat"
	}
	if wantSat {
		// vacuity guard: the assumptions must not be refutable. cvc5 answers quickly (sat/unknown) on
		// satisfiable quantified problems where z3's model-based instantiation diverges.
		st, out, secs := runSolver(context.Background(), solvers[2], file, 2*time.Second)
		res.Attempts = append(res.Attempts, fmt.Sprintf("%s:%s:%.2fs", solvers[2].name, st, secs))
		if st == "error" || st == "timeout" {
			st2, out2, secs2 := runSolver(context.Background(), solverSpec{"z3-new", func(f string, t time.Duration) []string {
				return []string{"z3-new", "smt.mbqi=false", fmt.Sprintf("-T:%d", int(t.Seconds())+1), f}
			}}, file, 2*time.Second)
			res.Attempts = append(res.Attempts, fmt.Sprintf("z3-new(mbqi off):%s:%.2fs", st2, secs2))
			res.Status, res.Solver, res.Seconds, res.Output = st2, "z3-new", secs2, out2
			return res
		}
		res.Status, res.Solver, res.Seconds, res.Output = st, solvers[2].name, secs, out
		return res
	}
	firstStatus, firstOut, secs := "unknown", "", 0.0
	// race
	ctx, cancel := context.WithCancel(context.Background())
	defer cancel()
	type r struct {
		name, st, out string
		secs          float64
	}
	ch := make(chan r, len(solvers)+1)
	var wg sync.WaitGroup
	// a fourth racer: z3 on the query with the quantified background axioms removed. Dropping assumptions can only
	// make a query more satisfiable, so an `unsat` answer is valid for the full query (any other answer is ignored).
	if lite := liteQuery(query); lite != "" {
		liteFile := filepath.Join(dir, fmt.Sprintf("q%05d.lite.smt2", idx))
		os.WriteFile(liteFile, []byte(lite), 0o644)
		defer os.Remove(liteFile)
		wg.Add(1)
		go func() {
			defer wg.Done()
			st, out, secs := runSolver(ctx, solvers[0], liteFile, fullT)
			if st != "unsat" {
				st, out = "unknown", ""
			}
			ch <- r{"z3-new(lite)", st, out, secs}
		}()
	}
	for i, s := range solvers {
		_ = i
		wg.Add(1)
		go func(s solverSpec) {
			defer wg.Done()
			st, out, secs := runSolver(ctx, s, file, fullT)
			ch <- r{s.name, st, out, secs}
		}(s)
	}
	go func() { wg.Wait(); close(ch) }()
	best := r{solvers[0].name, firstStatus, firstOut, secs}
	seen := false
	// preference among undecided answers: sat (a model exists) > unknown > timeout > error
	rank := map[string]int{"sat": 4, "unknown": 3, "timeout": 2, "error": 1}
	for x := range ch {
		res.Attempts = append(res.Attempts, fmt.Sprintf("%s:%s:%.2fs", x.name, x.st, x.secs))
		if decisive(x.st) {
			res.Status, res.Solver, res.Seconds, res.Output = x.st, x.name, x.secs, x.out
			cancel()
			return res
		}
		if strings.HasSuffix(x.name, "(lite)") {
			continue // the pruned query only counts when it proves the obligation
		}
		if !seen || rank[x.st] > rank[best.st] {
			best = x
			seen = true
		}
	}
	res.Status, res.Solver, res.Seconds, res.Output = best.st, best.name, best.secs, best.out
	return res
}


// liteQuery: the query restricted to the quantified assertions that talk about a local value of the goal.
// Kept: every declaration and quantifier-free assertion; a quantified assertion only if it mentions one of the
// SSA-local symbols (|name!N|, no component or epoch marker) that occur in the goal - in practice the assumed
// loop invariants and callee postconditions. Dropped: background axioms (strings, closed heap, frames).
func liteQuery(query string) string {
	i := strings.Index(query, bodyMarker)
	if i < 0 {
		return ""
	}
	lines := strings.Split(strings.TrimRight(query, "\n"), "\n")
	// the goal is the last assertion
	goal := ""
	for k := len(lines) - 1; k >= 0; k-- {
		if strings.HasPrefix(lines[k], "(assert") {
			goal = lines[k]
			break
		}
	}
	locals := map[string]bool{}
	for _, sym := range quotedSymbols(goal) {
		if isLocalSymbol(sym) {
			locals[sym] = true
		}
	}
	if len(locals) == 0 {
		return ""
	}
	var sb strings.Builder
	dropped := 0
	for _, l := range lines {
		if l != goal && strings.HasPrefix(l, "(assert") && (strings.Contains(l, "(forall ") || strings.Contains(l, "(exists ")) {
			keep := false
			for _, sym := range quotedSymbols(l) {
				if locals[sym] {
					keep = true
					break
				}
			}
			if !keep {
				dropped++
				continue
			}
		}
		sb.WriteString(l)
		sb.WriteByte('\n')
	}
	if dropped == 0 {
		return ""
	}
	return sb.String()
}

func quotedSymbols(l string) []string {
	var out []string
	for {
		i := strings.IndexByte(l, '|')
		if i < 0 {
			return out
		}
		j := strings.IndexByte(l[i+1:], '|')
		if j < 0 {
			return out
		}
		out = append(out, l[i:i+j+2])
		l = l[i+j+2:]
	}
}

func isLocalSymbol(sym string) bool {
	s := strings.Trim(sym, "|")
	if strings.ContainsAny(s, ":@$") || !strings.Contains(s, "!") {
		return false
	}
	return !strings.HasPrefix(s, "lit!")
}
