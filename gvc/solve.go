package main

import (
	"context"
	"fmt"
	"os"
	"os/exec"
	"path/filepath"
	"strings"
	"sync"
	"time"
)

type SolveResult struct {
	Status   string // unsat, sat, unknown, timeout, error
	Solver   string
	Seconds  float64
	Output   string
	Attempts []string
	Bytes    int
}

type solverSpec struct {
	name string
	cmd  func(file string, timeout time.Duration) []string
}

var solvers = []solverSpec{
	{"z3-new", func(f string, t time.Duration) []string {
		return []string{"z3-new", fmt.Sprintf("-T:%d", int(t.Seconds())+1), f}
	}},
	{"z3", func(f string, t time.Duration) []string {
		return []string{"z3", fmt.Sprintf("-T:%d", int(t.Seconds())+1), f}
	}},
	{"cvc5", func(f string, t time.Duration) []string {
		return []string{"cvc5", fmt.Sprintf("--tlimit=%d", t.Milliseconds()), f}
	}},
}

func runSolver(ctx context.Context, s solverSpec, file string, timeout time.Duration) (status, out string, secs float64) {
	args := s.cmd(file, timeout)
	cctx, cancel := context.WithTimeout(ctx, timeout+2*time.Second)
	defer cancel()
	start := time.Now()
	cmd := exec.CommandContext(cctx, args[0], args[1:]...)
	b, _ := cmd.CombinedOutput()
	secs = time.Since(start).Seconds()
	out = string(b)
	first := strings.TrimSpace(strings.SplitN(out, "\n", 2)[0])
	switch first {
	case "unsat", "sat", "unknown":
		return first, out, secs
	case "timeout":
		return "timeout", out, secs
	}
	if cctx.Err() != nil {
		return "timeout", out, secs
	}
	if strings.Contains(out, "interrupted") || strings.Contains(out, "timeout") {
		return "timeout", out, secs
	}
	return "error", out, secs
}

// solve discharges one query: first z3-new alone (fast path), then a race of all solvers.
func solve(dir string, idx int, query string, quickT, fullT time.Duration, wantSat bool) *SolveResult {
	file := filepath.Join(dir, fmt.Sprintf("q%05d.smt2", idx))
	os.WriteFile(file, []byte(query), 0o644)
	defer os.Remove(file)
	res := &SolveResult{Bytes: len(query)}
	decisive := func(st string) bool {
		if wantSat {
			return st == "sat" || st == "unsat"
		}
		return st == "unsat"
	}
	if wantSat {
		// vacuity guard: the assumptions must not be refutable. cvc5 answers quickly (sat/unknown) on
		// satisfiable quantified problems where z3's model-based instantiation diverges.
		st, out, secs := runSolver(context.Background(), solvers[2], file, 2*time.Second)
		res.Attempts = append(res.Attempts, fmt.Sprintf("%s:%s:%.2fs", solvers[2].name, st, secs))
		if st == "error" || st == "timeout" {
			st2, out2, secs2 := runSolver(context.Background(), solverSpec{"z3-new", func(f string, t time.Duration) []string {
				return []string{"z3-new", "smt.mbqi=false", fmt.Sprintf("-T:%d", int(t.Seconds())+1), f}
			}}, file, 2*time.Second)
			res.Attempts = append(res.Attempts, fmt.Sprintf("z3-new(mbqi off):%s:%.2fs", st2, secs2))
			res.Status, res.Solver, res.Seconds, res.Output = st2, "z3-new", secs2, out2
			return res
		}
		res.Status, res.Solver, res.Seconds, res.Output = st, solvers[2].name, secs, out
		return res
	}
	firstStatus, firstOut, secs := "unknown", "", 0.0
	// race
	ctx, cancel := context.WithCancel(context.Background())
	defer cancel()
	type r struct {
		name, st, out string
		secs          float64
	}
	ch := make(chan r, len(solvers))
	var wg sync.WaitGroup
	for i, s := range solvers {
		_ = i
		wg.Add(1)
		go func(s solverSpec) {
			defer wg.Done()
			st, out, secs := runSolver(ctx, s, file, fullT)
			ch <- r{s.name, st, out, secs}
		}(s)
	}
	go func() { wg.Wait(); close(ch) }()
	best := r{solvers[0].name, firstStatus, firstOut, secs}
	seen := false
	// preference among undecided answers: sat (a model exists) > unknown > timeout > error
	rank := map[string]int{"sat": 4, "unknown": 3, "timeout": 2, "error": 1}
	for x := range ch {
		res.Attempts = append(res.Attempts, fmt.Sprintf("%s:%s:%.2fs", x.name, x.st, x.secs))
		if decisive(x.st) {
			res.Status, res.Solver, res.Seconds, res.Output = x.st, x.name, x.secs, x.out
			cancel()
			return res
		}
		if !seen || rank[x.st] > rank[best.st] {
			best = x
			seen = true
		}
	}
	res.Status, res.Solver, res.Seconds, res.Output = best.st, best.name, best.secs, best.out
	return res
}
