package main

// Bounded check over rendered programs (C03): in every handler closure rendered for the fixture project, for all
// five engines, no call other than the authorization helpers is reachable unless authorize(...) returned nil.
// This is a dominance check on the SSA of the rendered handlers — per generated program, not a proof about the
// template as a program generator. Labelled bounded.

import (
	"fmt"
	"go/token"
	"sort"
	"strings"
	"time"

	"golang.org/x/tools/go/ssa"
)

var renderedProgCache *Prog

func runRenderedGate(o *runOpts) boundedResult {
	res := boundedResult{Name: "rendered_gate", Bound: "every handler closure of RegisterRoutes rendered for the fixture project (5 engines x 5 routes): each call other than authorize/handleAuthorizationError must be dominated by the authErr == nil branch", Exhaustive: true}
	start := time.Now()
	defer func() { res.Seconds = time.Since(start).Seconds() }()
	cs, err := loadContracts(o.repo)
	if err != nil {
		res.Replay = writeHarnessReplay(o, res.Name, err.Error(), "")
		return res
	}
	prog := renderedProgCache
	if prog == nil {
		needed := map[string]bool{}
		for _, e := range []string{"gin", "echo", "mux", "chi", "fiber"} {
			needed["fxproj/out/"+e] = true
		}
		prog, err = loadRendered(o, cs, needed)
		if err != nil {
			res.Replay = writeHarnessReplay(o, res.Name, "rendering failed: "+err.Error(), "")
			return res
		}
	}
	var fails []string
	for _, e := range []string{"gin", "echo", "mux", "chi", "fiber"} {
		pkg := prog.all["fxproj/out/"+e]
		if pkg == nil {
			fails = append(fails, "class=rendered-package-missing "+e)
			continue
		}
		spkg := prog.ssaProg.Package(pkg.Types)
		reg := spkg.Func("RegisterRoutes")
		if reg == nil {
			fails = append(fails, "class=no-RegisterRoutes "+e)
			continue
		}
		handlers := 0
		for _, h := range reg.AnonFuncs {
			// handlers are the closures that call authorize
			var authCall *ssa.Call
			n := 0
			for _, b := range h.Blocks {
				for _, ins := range b.Instrs {
					if c, ok := ins.(*ssa.Call); ok {
						if f := c.Call.StaticCallee(); f != nil && f.Name() == "authorize" && f.Pkg == spkg {
							authCall = c
							n++
						}
					}
				}
			}
			if authCall == nil {
				continue
			}
			handlers++
			res.Cases++
			where := fmt.Sprintf("%s handler at %s", e, prog.fset.Position(h.Pos()))
			if n != 1 {
				fails = append(fails, fmt.Sprintf("class=authorize-called-%d-times %s", n, where))
				continue
			}
			// the branch on authErr != nil
			var okBlock, refusedBlock *ssa.BasicBlock
			for _, ref := range *authCall.Referrers() {
				bo, ok := ref.(*ssa.BinOp)
				if !ok || (bo.Op != token.NEQ && bo.Op != token.EQL) {
					continue
				}
				for _, r2 := range *bo.Referrers() {
					if iff, ok := r2.(*ssa.If); ok {
						t, f := iff.Block().Succs[0], iff.Block().Succs[1]
						if bo.Op == token.NEQ {
							refusedBlock, okBlock = t, f
						} else {
							okBlock, refusedBlock = t, f
						}
					}
				}
			}
			if okBlock == nil {
				fails = append(fails, "class=gate-result-not-tested "+where)
				continue
			}
			allowedAnywhere := map[string]bool{"authorize": true}
			for _, b := range h.Blocks {
				for _, ins := range b.Instrs {
					ci, ok := ins.(ssa.CallInstruction)
					if !ok {
						continue
					}
					name := "(dynamic)"
					if f := ci.Common().StaticCallee(); f != nil {
						name = f.Name()
					} else if ci.Common().IsInvoke() {
						name = ci.Common().Method.Name()
					}
					if _, isBuiltin := ci.Common().Value.(*ssa.Builtin); isBuiltin {
						continue
					}
					if allowedAnywhere[name] {
						continue
					}
					inRefused := refusedBlock != nil && (b == refusedBlock || refusedBlock.Dominates(b)) && !(okBlock == b || okBlock.Dominates(b))
					if inRefused {
						if name != "handleAuthorizationError" {
							fails = append(fails, fmt.Sprintf("class=call-on-refused-path %s: %s is called although authorization was refused", where, name))
						}
						continue
					}
					if !(b == okBlock || okBlock.Dominates(b)) {
						fails = append(fails, fmt.Sprintf("class=call-before-gate %s: %s is reachable without an approved authorization", where, name))
					}
				}
			}
			// the refused branch must not fall through into the approved part
			if refusedBlock != nil {
				seen := map[*ssa.BasicBlock]bool{}
				var walk func(b *ssa.BasicBlock)
				walk = func(b *ssa.BasicBlock) {
					if seen[b] {
						return
					}
					seen[b] = true
					if b == okBlock {
						fails = append(fails, "class=refused-path-falls-through "+where)
						return
					}
					for _, s := range b.Succs {
						walk(s)
					}
				}
				walk(refusedBlock)
			}
		}
		if handlers == 0 {
			fails = append(fails, "class=no-handlers-found "+e)
		}
	}
	sort.Strings(fails)
	fails = uniq(fails)
	if len(fails) > 0 {
		res.Replay = writeHarnessReplay(o, res.Name, strings.Join(fails, "\n"), "")
		return res
	}
	res.OK = true
	return res
}
